"""C11 -- match exhaustiveness and reachability are decided exactly (DESIGN.md 5 C11).

Static half: generated matches over finite scrutinee types (vlib/matchgen.py) are packed 200 per file and fed to the real CLI
(`dora compile -c --report-all-warnings`); the diagnostics are mapped back to matches/arms/sub-patterns by line, column and
underline length and compared with a brute-force evaluation of every pattern against every value of the type:
  * `match` does not cover all possible values  <=>  some value matches no unguarded arm;
  * every pattern listed under "Missing patterns" parses back to a pattern of the type that denotes an unmatched value;
  * arm i gets `unreachable pattern` over its whole pattern  <=>  everything it matches is matched by earlier unguarded arms
    (alternatives `p | q` at the top of an arm: each alternative separately, earlier alternatives of the arm count);
  * a warning below arm level (an alternative nested in a tuple/payload) must be *sound*: that alternative is redundant.
Run-time half: matches the checker accepted are compiled with both code generators into argv-dispatched programs that construct
every value of the scrutinee type and print the arm taken, the guards evaluated and the Bool variables bound; the oracle is the
first arm whose pattern and guard hold.
"""
import os
import re
import concurrent.futures

from .. import build, core, execu, progrun
from .. import matchgen as mg

NONEXH = "`match` does not cover all possible values. Missing patterns: "
UNREACH = "unreachable pattern."
PER_FILE = 200
_PANIC = re.compile(r"panicked at ([^\s:]+):(\d+):\d+:\n([^\n]*)")


def panic_key(err):
    m = _PANIC.search(err)
    if not m:
        return "panic@unknown"
    try:
        from .c06 import panic_class
        cls = panic_class(m.group(3))
    except Exception:
        cls = re.sub(r"\d+", "N", m.group(3))
    return "panic@%s:%s:%s" % (m.group(1), m.group(2), cls)


def parse_diags(text, fname=None):
    """stderr of dora compile -> [(level, message, line, col, underline length or None)]; diagnostics located in another file
    (the standard library) get line 0"""
    lines = text.split("\n")
    out = []
    i = 0
    n = len(lines)
    while i < n:
        m = re.match(r"(error|warning): (.*)$", lines[i])
        if m and i + 1 < n and lines[i + 1].startswith("--> "):
            loc = re.match(r"--> (.*):(\d+):(\d+)$", lines[i + 1])
            if loc:
                other = fname is not None and os.path.basename(loc.group(1)) != fname
                length = None
                j = i + 2
                while j < n and j < i + 12:
                    if re.match(r"^ *~+$", lines[j]):
                        length = lines[j].count("~")
                        break
                    if not lines[j].startswith(" |"):
                        break
                    j += 1
                out.append((m.group(1), m.group(2) + (" [in %s]" % loc.group(1) if other else ""), 0 if other else int(loc.group(2)),
                            int(loc.group(3)), length))
                i = j + 1 if length is not None else i + 2
                continue
        i += 1
    return out


class Layout:
    """A file of matches with the line bookkeeping needed to map diagnostics back."""

    def __init__(self, defs, matches):
        self.defs, self.matches = defs, matches
        lines = list(defs) + mg.CONSTS + mg.ST_PRELUDE.split("\n")
        self.match_line = []     # 1-based line of `match x {` per match
        self.arm_lines = []      # per match: [(line, spans, text)]
        self.by_line = {}        # line -> (match index, arm index or None)
        for i, m in enumerate(matches):
            fl, moff, arms = m.fn_text("m%d" % i)
            base = len(lines)
            self.match_line.append(base + moff + 1)
            self.by_line[base + moff + 1] = (i, None)
            al = []
            for ai, (off, spans, txt) in enumerate(arms):
                al.append((base + off + 1, spans, txt))
                self.by_line[base + off + 1] = (i, ai)
            self.arm_lines.append(al)
            lines += fl
        lines.append("fn main() { }")
        self.text = "\n".join(lines) + "\n"


def compile_static(dora, path, text, timeout=600):
    with open(path, "w") as f:
        f.write(text)
    return execu.run_cmd([dora, "compile", "-c", "--report-all-warnings", path, "-o", path + ".pkg"], timeout=timeout,
                         env={"RUST_BACKTRACE": "0"})


def compare(lay, diags, res, confirm=None):
    """Compare the checker's diagnostics for every match of the layout with the brute-force verdicts."""
    per = [{"nonexh": None, "unreach": []} for _ in lay.matches]
    for level, msg, line, col, length in diags:
        w = lay.by_line.get(line)
        if level == "error":
            if msg.startswith(NONEXH) and w is not None and w[1] is None:
                if col != mg.SCRUT_COL:
                    res.viol("c11:bad-span:nonexhaustive", "non-exhaustive error at column %d, scrutinee is at column %d" % (col, mg.SCRUT_COL), lay, w[0])
                per[w[0]]["nonexh"] = msg[len(NONEXH):]
            else:
                res.foreign.append("%s @%d:%d" % (msg, line, col))
        elif msg == UNREACH:
            if w is None or w[1] is None:
                res.foreign.append("unreachable-pattern warning outside an arm @%d:%d" % (line, col))
            else:
                per[w[0]]["unreach"].append((w[1], col - mg.PAT_COL, length))
    if res.foreign:
        return
    for mi, m in enumerate(lay.matches):
        coarse, fine = m.shape()
        v = mg.analyse(m)
        got = per[mi]
        res.count("matrices")
        res.count("shape:" + fine)
        res.count("family:" + m.family.split(":")[0])
        res.distinct.append(int(core.sha(m.canon())[:15], 16))
        bad = False
        # ---- exhaustiveness
        o_ex = v.uncovered == 0
        c_ex = got["nonexh"] is None
        res.count("exhaustive:oracle=%s,checker=%s" % ("yes" if o_ex else "no", "yes" if c_ex else "no"))
        if o_ex != c_ex:
            bad = True
            if c_ex:
                vi = (v.uncovered & -v.uncovered).bit_length() - 1
                res.viol("c11:false-exhaustive:" + coarse,
                         "the checker accepts the match, but %d of %d values match no unguarded arm, e.g. %s" % (
                             bin(v.uncovered).count("1"), v.n, mg.value_text(mg.values(m.ty)[vi], m.ty)), lay, mi)
            else:
                res.viol("c11:false-nonexhaustive:" + coarse,
                         "the checker reports missing patterns `%s`, but every one of the %d values matches an unguarded arm" % (
                             got["nonexh"], v.n), lay, mi)
        elif not c_ex:
            # ---- witnesses
            try:
                ws = mg.parse_witnesses(got["nonexh"], m.ty)
                res.count("witnesses", len(ws))
                for w in ws:
                    wm = mg.mask(w, m.ty)
                    if wm & v.uncovered == 0:
                        bad = True
                        res.viol("c11:bad-witness:" + coarse, "missing pattern `%s` denotes no unmatched value (%d values denoted, %d unmatched in total)" % (
                            got["nonexh"], bin(wm).count("1"), bin(v.uncovered).count("1")), lay, mi)
                        break
                    if wm & ~v.uncovered:
                        res.count("witness_also_denotes_matched_values")
                    else:
                        res.count("witness_all_unmatched")
            except mg.WitnessError as e:
                bad = True
                res.viol("c11:bad-witness:" + coarse, "missing-patterns text is not a pattern of the scrutinee type: %s" % e, lay, mi)
        # ---- usefulness
        flagged = {}
        for ai, off, length in got["unreach"]:
            spans = lay.arm_lines[mi][ai][1]
            paths = [pa for pa, sp in spans.items() if sp == (off, length)]
            if len(paths) != 1:
                bad = True
                res.viol("c11:bad-span:unreachable", "unreachable-pattern warning at arm %d offset %d length %s maps to %d pattern nodes" % (
                    ai, off, length, len(paths)), lay, mi)
                continue
            flagged.setdefault(ai, set()).add(paths[0])
        for ai, (p, g) in enumerate(m.arms):
            exp = v.reports[ai]
            gotp = flagged.get(ai, set())
            o_useless = exp is mg.YES
            c_useless = () in gotp
            res.count("arm:oracle=%s,checker=%s" % ("useless" if o_useless else "useful", "useless" if c_useless else "useful"))
            if o_useless != c_useless:
                bad = True
                if c_useless:
                    res.viol("c11:false-useless:" + coarse, "arm %d is reported unreachable, but it is the first unguarded-covering arm for %d values, e.g. %s" % (
                        ai, bin(v.arm_masks[ai] & ~v.arm_cov[ai]).count("1"),
                        mg.value_text(mg.values(m.ty)[((v.arm_masks[ai] & ~v.arm_cov[ai]) & -(v.arm_masks[ai] & ~v.arm_cov[ai])).bit_length() - 1], m.ty)), lay, mi)
                else:
                    res.viol("c11:missed-useless:" + coarse, "arm %d is not reported unreachable, but all %d values it matches are matched by earlier unguarded arms" % (
                        ai, bin(v.arm_masks[ai]).count("1")), lay, mi)
                continue
            if o_useless:
                if gotp != {()}:
                    res.count("sub_warnings_inside_useless_arm")
                continue
            expp = exp
            top_only = p[0] == "alt" and all(not mg.outer_alts(a) for a in p[1])
            if p[0] != "alt" and not mg.outer_alts(p):
                continue
            res.count("arms_with_alternatives")
            for X in gotp - expp:
                s = mg.sound_flag(p, m.ty, X, v.arm_cov[ai])
                if not s:
                    bad = True
                    res.viol("c11:false-useless:" + coarse, "sub-pattern `%s` of arm %d is reported unreachable, but it is %s" % (
                        _subtext(lay, mi, ai, X), ai, "not an alternative" if s is None else "needed: it matches values that neither earlier arms nor earlier alternatives match"), lay, mi)
                else:
                    res.count("sub_flag_sound_but_unpredicted")
            for X in expp - gotp:
                if top_only:
                    bad = True
                    res.viol("c11:missed-useless:" + coarse, "alternative `%s` of arm %d is not reported unreachable, but everything it matches is matched by earlier arms/alternatives" % (
                        _subtext(lay, mi, ai, X), ai), lay, mi)
                else:
                    res.count("sub_flag_predicted_but_missing")
            res.count("sub_flags_agree", len(gotp & expp))
            if gotp == expp:
                res.count("arms_with_alternatives_exact")
        if not bad:
            if o_ex and c_ex:
                res.accepted.append(m)
            if len(res.samples) < 2 and (got["unreach"] or not c_ex) and len(m.arms) >= 3:
                res.samples.append({"match": m.describe(), "values": v.n, "checker_missing": got["nonexh"],
                                    "checker_unreachable": sorted(got["unreach"]), "oracle_unmatched_values": bin(v.uncovered).count("1"),
                                    "oracle_useless_arms": [i for i, r in enumerate(v.reports) if r is mg.YES]})


def _subtext(lay, mi, ai, X):
    _, spans, txt = lay.arm_lines[mi][ai]
    off, ln = spans[X]
    return txt[off:off + ln]


class Result:
    def __init__(self):
        self.counters = {}
        self.violations = []     # (key, what, source, detail)
        self.keys = set()
        self.foreign = []
        self.distinct = []
        self.accepted = []
        self.samples = []
        self.inconc = []
        self.exec_matches = None

    def count(self, k, n=1):
        self.counters[k] = self.counters.get(k, 0) + n

    def viol(self, key, what, lay, mi):
        if key in self.keys:
            self.count("violations_same_key_in_file")
            return
        self.keys.add(key)
        m = lay.matches[mi]
        single = Layout(lay.defs, [m])
        self.violations.append([key, what + "\n" + m.describe(), single.text, mi])


def run_layout(dora, path, lay, res, depth_left=6):
    """Compile one file and compare; a compiler panic is bisected to one match, reported, and the rest is retried."""
    o = compile_static(dora, path, lay.text)
    err = o.stderr.decode("utf-8", "replace")
    if o.cls == "timeout":
        res.inconc.append("compile watchdog (600 s) on a file of %d matches" % len(lay.matches))
        return
    if o.cls in ("rust_panic", "signal") or "panicked at" in err:
        res.count("files_with_compiler_crash")
        ms = list(lay.matches)
        lo, hi = 0, len(ms)
        while hi - lo > 1:
            mid = (lo + hi) // 2
            sub = Layout(lay.defs, ms[lo:mid])
            so = compile_static(dora, path + ".bisect.dora", sub.text)
            if so.cls in ("rust_panic", "signal") or b"panicked at" in so.stderr:
                hi = mid
            else:
                lo = mid
        single = Layout(lay.defs, [ms[lo]])
        so = compile_static(dora, path + ".bisect.dora", single.text)
        serr = so.stderr.decode("utf-8", "replace")
        coarse = ms[lo].shape()[0]
        if so.cls in ("rust_panic", "signal") or "panicked at" in serr:
            key = panic_key(serr) if "panicked at" in serr else "c11:checker-crash:signal%s" % so.sig
            if key not in res.keys:
                res.keys.add(key)
                res.violations.append([key, "dora compile crashed while checking this match (shape class %s): %s\n%s" % (
                    coarse, serr[:300], ms[lo].describe()), single.text, lo])
            res.count("matches_crashing_the_checker")
            rest = ms[:lo] + ms[lo + 1:]
            if rest and depth_left > 0:
                run_layout(dora, path, Layout(lay.defs, rest), res, depth_left - 1)
            elif rest:
                res.count("matches_skipped_after_repeated_crashes", len(rest))
        else:
            res.inconc.append("compiler crash on a file did not reproduce on a single match: %s" % err[:200])
        return
    if o.cls != "ok" and o.cls != "fatal":
        res.inconc.append("dora compile ended with %s: %s" % (o.key(), err[:200]))
        return
    diags = parse_diags(err, os.path.basename(path))
    nerr = sum(1 for d in diags if d[0] == "error")
    if (o.status == 0) != (nerr == 0):
        res.inconc.append("exit status %s with %d parsed errors: %s" % (o.status, nerr, err[-300:]))
        return
    compare(lay, diags, res)
    if res.foreign:
        res.inconc.append("generated file has diagnostics the generator did not intend (exhaustiveness pass may not have run): %s" % "; ".join(res.foreign[:3]))
        res.count("files_with_foreign_diagnostics")
        res.foreign = []
        return
    res.count("files_checked")


_SPACES = None


def static_job(job):
    """Worker (separate process): generate one file, run the checker on it, compare."""
    global _SPACES
    res = Result()
    try:
        if job["kind"] == "small":
            if _SPACES is None:
                _SPACES = {s.name: s for s in mg.small_spaces()}
            sp = _SPACES[job["space"]]
            defs, matches = mg.SMALL_DEFS, [sp.get(i) for i in range(job["lo"], job["hi"])]
        else:
            rng = core.derive_rng(job["prop"], job["seed"], "file:" + job["family"], job["index"])
            defs, matches = mg.gen_file(rng, job["family"], job["n"])
        lay = Layout(defs, matches)
        path = os.path.join(job["dir"], "f%05d.dora" % job["id"])
        run_layout(job["dora"], path, lay, res)
        for k in ("", ".pkg", ".bisect.dora", ".bisect.dora.pkg"):
            try:
                os.unlink(path + k)
            except OSError:
                pass
        if job.get("exec_n") and res.accepted:
            rng = core.derive_rng(job["prop"], job["seed"], "execpick", job["id"])
            cand = [m for m in res.accepted if mg.nvalues(m.ty) <= 2048]
            # prefer matches that exercise something: several arms
            cand.sort(key=lambda m: (-min(len(m.arms), 4), rng.random()))
            res.exec_matches = (list(defs), cand[:job["exec_n"]])
    except Exception:
        import traceback
        res.inconc.append("worker failed: " + traceback.format_exc()[-1500:])
    return job, res


# ------------------------------------------------------------------------------------------------------------- driver
def run_static(ctx, jobs):
    execs = []
    with concurrent.futures.ProcessPoolExecutor(max_workers=core.NCPU) as ex:
        for job, res in ex.map(static_job, jobs, chunksize=1):
            for k, n in res.counters.items():
                ctx.count(k, n)
            for h in res.distinct:
                ctx.observe(h)
            for s in res.samples:
                ctx.sample(s, limit=8)
            for w in res.inconc:
                ctx.inconc(w)
            for key, what, text, mi in res.violations:
                ctx.violation(key, what, files={"match.dora": text},
                              cmd="dora compile -c --report-all-warnings match.dora -o match.pkg")
            if res.exec_matches and res.exec_matches[1]:
                execs.append((job["id"], res.exec_matches))
            if job["kind"] == "small":
                ctx.count("small:" + job["space"], job["hi"] - job["lo"])
    return execs


def exec_masks(m, rng):
    ng = m.nguards()
    if ng == 0:
        return [0]
    full = list(range(1 << ng))
    budget = max(2, min(8, 8192 // max(1, mg.nvalues(m.ty))))
    if len(full) <= budget:
        return full
    rest = full[1:-1]
    rng.shuffle(rest)
    return [0, full[-1]] + rest[:budget - 2]


def run_exec(ctx, execs, batch=16):
    """Executables are large: compile and run a batch of programs at a time, the scratch directory is reused."""
    import shutil
    d = None
    for i in range(0, len(execs), batch):
        d = run_exec_batch(ctx, execs[i:i + batch])
    if d:
        shutil.rmtree(d, ignore_errors=True)


def run_exec_batch(ctx, execs):
    programs = []
    info = {}
    for fid, (defs, ms) in execs:
        name = "x%05d" % fid
        programs.append((name, mg.runtime_program(defs, ms)))
        info[name] = ms
    backends = tuple(getattr(ctx, "opts", {}).get("backends", "cannon,boots").split(","))
    built, d = progrun.compile_all("c11x", programs, backends=backends, timeout=900)
    src = dict(programs)
    jobs = []
    for name, ms in info.items():
        b = built[name]
        for key, r in b.errors.items():
            if r.timeout:
                ctx.inconc("compile watchdog: %s %s" % (name, key))
                continue
            text = progrun.compile_error_text(r)
            lines = [l for l in text.splitlines() if l.strip()]
            pm = _PANIC.search(text)
            if pm:
                sig = panic_key(text)
            else:
                # a failure of the Dora-written compiler: message line followed by `    function (file:line:col)` frames
                at = next((i for i, l in enumerate(lines) if l.startswith(("fatal error:", "error:")) or l.strip() in execu.TRAP_MSG.values()
                           or l.startswith("unreachable code")), None)
                first = lines[at] if at is not None else (lines[-1] if lines else "")
                frames = [l.strip().split(" (")[0] for l in lines[(at or 0) + 1:] if l.startswith("    ") and "(" in l][:2]
                sig = re.sub(r"\d+", "N", first[:120]) + ("@" + ">".join(frames) if frames else "")
            ctx.violation("c11:compile-rejected:%s:%s" % (key[0], sig),
                          "a program of matches the front end accepted was rejected / crashed the %s compiler:\n%s" % (key[0], text[-1500:]),
                          files={"program.dora": src[name]})
        for key, exe in b.exes.items():
            for fi, m in enumerate(ms):
                masks = exec_masks(m, ctx.rng("masks:" + name, fi))
                jobs.append(((name, fi, key, tuple(masks)), exe, [fi] + masks, None, None))
    ctx.count("exec_programs", len(programs))
    for (name, fi, key, masks), o in progrun.run_cases(jobs, timeout=300):
        m = info[name][fi]
        be = key[0]
        coarse, fine = m.shape()
        if o.cls == "timeout":
            ctx.inconc("run watchdog: %s m%d %s" % (name, fi, be))
            continue
        ctx.count("exec_runs")
        ctx.count("exec_backend:" + be)
        out = o.stdout.decode("utf-8", "replace").split("\n")
        n = mg.nvalues(m.ty)
        expected = []
        for mk in masks:
            for vi in range(n):
                arm, log = mg.select_arm(m, vi, mk)
                expected.append((mk, vi, arm, log))
        problem = None
        for idx, (mk, vi, arm, log) in enumerate(expected):
            exp_line = "%d %d %s %s" % (mk, vi, arm, log)
            got_line = out[idx] if idx < len(out) else None
            if got_line != exp_line:
                # the first line with a wrong arm is reported in preference to an earlier line that only has a different log
                wrong_arm = got_line in (None, "") or got_line.split(" ", 3)[:3] != exp_line.split(" ", 3)[:3]
                if problem is None or wrong_arm:
                    problem = (idx, mk, vi, arm, log, got_line)
                if wrong_arm:
                    break
                continue
            ctx.count("values_executed")
        files = {"program.dora": src[name], "match.txt": m.describe() + "\n"}
        cmd = "%s %s" % (os.path.basename(built[name].exes[key]), " ".join(str(x) for x in [fi] + list(masks)))
        err = o.stderr.decode("utf-8", "replace")
        if problem is not None:
            idx, mk, vi, arm, log, got_line = problem
            val = mg.value_text(mg.values(m.ty)[vi], m.ty)
            if got_line in (None, "") and "unreachable code executed" in err:
                ctx.violation("c11:unreachable-fired:" + coarse,
                              "%s code generator: the accepted match fell through to `unreachable` for value %s (guard results %s); expected arm %s\n%s\n%s" % (
                                  be, val, bin(mk), arm, err[:300], m.describe()), files=files, cmd=cmd)
            elif got_line in (None, ""):
                ctx.violation("c11:run-failed:%s:%s" % (be, o.key()),
                              "%s code generator: the program ended (%s) before value %s (guard results %s) was reported: %s\n%s" % (
                                  be, o.key(), val, bin(mk), err[:300], m.describe()), files=files, cmd=cmd)
            else:
                g = got_line.split(" ", 3)
                kind = "wrong-arm-executed" if len(g) < 3 or g[2] != str(arm) else "wrong-guard-or-binding-log"
                ctx.violation("c11:%s:%s" % (kind, coarse),
                              "%s code generator, value %s, guard results %s: expected `<mask> <value index> <arm> <log>` = %r, program printed %r\n%s" % (
                                  be, val, bin(mk), "%d %d %s %s" % (mk, vi, arm, log), got_line, m.describe()), files=files, cmd=cmd)
        elif o.cls != "ok" or o.status != 0:
            ctx.violation("c11:run-failed:%s:%s" % (be, o.key()), "%s code generator: all lines as expected but the program ended with %s: %s" % (
                be, o.key(), err[:300]), files=files, cmd=cmd)
        else:
            ctx.count("matches_executed:" + be)
            ctx.count("executed:" + coarse)
            if ctx.counters.get("exec_runs", 0) % 97 == 1:
                ctx.sample({"executed": m.describe(), "backend": be, "values": n, "guard_masks": list(masks), "first_lines": out[:4]}, limit=10)
    return d


def run(ctx):
    opts = getattr(ctx, "opts", {})
    backends = opts.get("backends", "cannon,boots").split(",")
    boots_failed = None
    try:
        build.ensure_toolchain("rel", need_boots=opts.get("noexec") != "1" and "boots" in backends)
    except build.BuildError as e:
        # a front end that miscompiles matches may not be able to bootstrap the Dora-written optimizing compiler: the static half
        # and the baseline code generator can still be checked (without the boots counters the run cannot end as "held")
        build.ensure_toolchain("rel", need_boots=False)
        boots_failed = str(e)[-400:]
        backends = [b for b in backends if b != "boots"]
        opts = ctx.opts = dict(opts, backends=",".join(backends), noexec="1" if not backends else opts.get("noexec", "0"))
    dora = build.dora("rel")
    d = core.scratch("c11")
    jobs = []
    jid = [0]

    def add(**kw):
        kw.update(id=jid[0], prop=ctx.prop, seed=ctx.seed, dora=dora, dir=d)
        jid[0] += 1
        jobs.append(kw)

    spaces = mg.small_spaces()
    if opts.get("small", "1") == "1":
        for sp in spaces:
            for lo in range(0, sp.total, PER_FILE):
                add(kind="small", space=sp.name, lo=lo, hi=min(sp.total, lo + PER_FILE))
    scale = float(opts.get("scale", "1"))
    fam = {"core": ctx.pick(26, 1150), "lit": ctx.pick(9, 330), "rest": ctx.pick(6, 230), "dense": ctx.pick(4, 100), "named": ctx.pick(4, 140),
           "restm": ctx.pick(6, 40), "restt": ctx.pick(4, 30)}
    exec_files = {"core": ctx.pick(6, 100), "lit": ctx.pick(3, 40), "rest": ctx.pick(2, 25), "dense": ctx.pick(3, 30), "named": ctx.pick(2, 15),
                  "restm": ctx.pick(1, 4), "restt": ctx.pick(1, 4)}
    exec_per_file = ctx.pick(20, 24)
    only = opts.get("family")
    for f, nf in fam.items():
        if only and f != only:
            continue
        nf = max(1, int(nf * scale))
        for i in range(nf):
            n = 24 if f in ("restm", "restt") else PER_FILE
            add(kind="sample", family=f, index=i, n=n,
                exec_n=(exec_per_file if i < exec_files[f] and opts.get("noexec") != "1" else 0))
    # big files first: better load balance
    jobs.sort(key=lambda j: (j["kind"] == "small", j["id"]))
    execs = run_static(ctx, jobs)
    if execs:
        run_exec(ctx, execs)
    try:
        os.rmdir(d)
    except OSError:
        pass
    ctx.rule = ("case = one generated `match` (scrutinee type, <= 6 arms) checked by the real front end and compared with a brute-force "
                "evaluation of every arm against every value of the type; distinct = distinct (type shape, pattern matrix with guard flags) "
                "hash; the sub-space `small:*` (<= 2 columns, <= 3 rows over Bool / a 2-variant enum, with guards or alternatives) is "
                "enumerated exhaustively, everything else is sampled; values_executed = (match, value, guard results, code generator) "
                "runs whose arm, guard log and bound variables were compared")
    ctx.assumptions = [
        "matches over Int32/Int64/UInt8/Char/String/Float64 are evaluated over the literals occurring in the match plus one fresh value "
        "(patterns can only test equality with a literal, so this set is exhaustive for them)",
        "below arm level (alternatives nested inside tuples/payloads) the checker's warnings are required to be sound, not complete",
        "the guard of an arm is evaluated at most once per scrutinee value, after the pattern matched",
    ]
    ctx.extra["small_space_sizes"] = {s.name: s.total for s in spaces}
    ctx.extra["exhaustive"] = False      # the run as a whole samples; only the sub-space below is enumerated completely
    ctx.extra["exhaustive_subspace"] = {"name": "small:* (see rule)", "complete": opts.get("small", "1") == "1",
                                        "matrices": sum(s.total for s in spaces) if opts.get("small", "1") == "1" else 0}
    conf = {}
    for a in ("yes", "no"):
        for b in ("yes", "no"):
            conf["exhaustive:oracle=%s,checker=%s" % (a, b)] = 0
    for a in ("useful", "useless"):
        for b in ("useful", "useless"):
            conf["arm:oracle=%s,checker=%s" % (a, b)] = 0
    conf.update({k: n for k, n in ctx.counters.items() if k.startswith(("exhaustive:", "arm:"))})
    ctx.extra["verdict_confusion_matrix"] = conf
    ctx.extra["matrices_by_shape_class"] = {k[6:]: n for k, n in sorted(ctx.counters.items()) if k.startswith("shape:")}
    for k in [k for k in ctx.counters if k.startswith("shape:")]:
        del ctx.counters[k]
    ctx.required_counters = ["matrices", "files_checked", "exhaustive:oracle=yes,checker=yes", "exhaustive:oracle=no,checker=no",
                             "arm:oracle=useless,checker=useless", "arm:oracle=useful,checker=useful", "witnesses"]
    if boots_failed:
        ctx.inconc("the optimizing compiler could not be bootstrapped, only the baseline code generator was exercised: " + boots_failed)
        ctx.required_counters.append("matches_executed:boots")
    if opts.get("noexec") != "1":
        ctx.required_counters += ["values_executed"] + ["matches_executed:" + b for b in backends]
    ctx.min_distinct = 100
