"""C05 -- only well-typed programs are compiled, and all of them are (DESIGN.md 5 C05).

Well-typed side: programs from the typed generator (well typed by construction) must be accepted by the real CLI
(`dora compile -c`: exit 0, package written, no error diagnostic); a sample also goes through both code generators to the
assembly stage. Ill-typed side: single-fault mutants (vlib/gen/mutate.py), each breaking exactly one static rule of a class
whose ill-typedness is unconditional, must be rejected: exit status 1, at least one `error:` diagnostic, NO package file, and
no panic / signal.
"""
import os
import re

from .. import build, execu
from ..core import scratch
from ..gen import build as gbuild
from ..gen import mutate
from .c01 import FEATURE_SETS


def front(src_path, out_path, extra=()):
    cmd = [build.dora("rel"), "compile", "-c"] + list(extra) + [src_path, "-o", out_path]
    return execu.run_cmd(cmd, timeout=120)


def run(ctx):
    build.ensure_toolchain("rel")
    nprog = ctx.pick(220, 2400)
    per = ctx.pick(3, 4)       # mutants per (program, class) attempts are spread over classes
    ctx.rule = ("well-typed case = one generated program (6 cases + declarations); mutant case = that program with exactly one "
                "injected fault of one class {type-mismatch, arg-count, unknown-name, inaccessible-name, immutable-assign, "
                "missing-return, unsatisfied-bound, type-arg-count, non-exhaustive-match, missing-trait-method}; distinct = distinct "
                "source text hash; non-trivial = the front end produced a verdict (accept / reject with diagnostics)")
    ctx.assumptions = ["'well typed' is limited to the generator's language subset", "mutant classes are ill-typed under the rules implemented in typeck (probed by hand on the pinned tree)"]
    d = scratch("c05")
    jobs = []
    for i in range(nprog):
        r = ctx.rng("prog", i)
        feats = FEATURE_SETS[2 + i % (len(FEATURE_SETS) - 2)]
        g = gbuild.Gen(r, feats, size=0.7)
        p = g.program(6, argv_mode=(i % 2 == 0))
        base = mutate.HIDDEN_MOD + p.source()
        jobs.append(("p%04d" % i, "well-typed", "", base))
        muts = list(mutate.MUTATORS)
        r.shuffle(muts)
        n = 0
        for m in muts:
            if n >= per + (i % 3):
                break
            res = mutate.mutant(p, r, m)
            if res is None:
                continue
            cls, desc, src = res
            jobs.append(("p%04d_m%d" % (i, n), cls, desc, src))
            n += 1

    def one(j):
        name, cls, desc, src = j
        sp = os.path.join(d, name + ".dora")
        op = os.path.join(d, name + ".dora-package")
        with open(sp, "w") as f:
            f.write(src)
        o = front(sp, op)
        exists = os.path.exists(op)
        if exists:
            os.unlink(op)
        return j, o, exists

    accepted = []
    for (name, cls, desc, src), o, exists in execu.pmap(one, jobs):
        err = o.stderr.decode("utf-8", "replace")
        nerr = len(re.findall(r"^error", err, re.M))
        ctx.count("class:" + cls)
        if o.cls == "timeout":
            ctx.inconc("front end watchdog on %s" % name)
            continue
        ctx.observe(hash(src))
        crashed = o.cls in ("signal", "rust_panic") or "panicked at" in err
        if crashed:
            loc = re.search(r"panicked at ([^\s:]+:\d+)", err)
            ctx.violation("c05:front-end-crash:%s" % (re.sub(r"^.*?/(dora-[^/]+/)", r"\1", loc.group(1)) if loc else o.key()),
                          "front end crashed on a %s program (%s): %s" % (cls, desc, err[-600:]), files={"program.dora": src})
            continue
        if cls == "well-typed":
            if o.cls == "ok" and o.status == 0 and exists:
                ctx.count("accepted_well_typed")
                accepted.append((name, src))
            else:
                first = next((l for l in err.splitlines() if l.startswith("error")), err[:120])
                ctx.violation("c05:well-typed-rejected:" + re.sub(r"`[^`]*`", "`_`", re.sub(r"\d+", "N", first))[:120],
                              "generated well-typed program rejected (status %s, package %s):\n%s" % (o.status, exists, err[-1500:]),
                              files={"program.dora": src})
        else:
            rejected = (o.status == 1 and nerr >= 1 and not exists)
            if rejected:
                ctx.count("rejected:" + cls)
                first = next((l for l in err.splitlines() if l.startswith("error")), "")
                ctx.count("diag:" + re.sub(r"`[^`]*`", "`_`", re.sub(r"\d+", "N", first))[:70])
                if ctx.counters.get("rejected:" + cls) == 1:
                    ctx.sample({"class": cls, "fault": desc, "first_diagnostic": first[:200]}, limit=12)
            else:
                ctx.violation("c05:ill-typed-accepted:%s:status=%s:package=%s:errors=%d" % (cls, o.status, exists, min(nerr, 1)),
                              "single-fault mutant (%s: %s) was not rejected properly: status %s, package written %s, %d error diagnostics\n%s" % (
                                  cls, desc, o.status, exists, nerr, err[-800:]), files={"program.dora": src})
    # a sample of the accepted programs through both code generators up to the assembly stage
    sample = accepted[:: max(1, len(accepted) // ctx.pick(12, 80))]

    def asm(j):
        name, src, be = j
        sp = os.path.join(d, name + ".dora")
        out = os.path.join(d, name.replace(".", "_") + "_" + be)
        cmd = [build.dora("rel"), "compile", "-S"] + (["--cannon"] if be == "cannon" else []) + [sp, "-o", out]
        o = execu.run_cmd(cmd, timeout=300, env={"TMPDIR": d})
        ok = o.cls == "ok" and o.status == 0 and os.path.exists(out + ".s")
        if os.path.exists(out + ".s"):
            os.unlink(out + ".s")
        return j, o, ok

    for (name, src, be), o, ok in execu.pmap(asm, [(n, s, be) for n, s in sample for be in ("cannon", "boots")]):
        ctx.count("codegen_sample_runs")
        if o.cls == "timeout":
            ctx.inconc("code generator watchdog on %s" % name)
        elif not ok:
            err = o.stderr.decode("utf-8", "replace")
            first = next((l for l in err.splitlines() if l.startswith("fatal error") or "panicked" in l or l.startswith("error") or "unreachable" in l), err[:100])
            ctx.violation("c05:codegen-failed:%s:%s" % (be, re.sub(r"\d+", "N", first)[:100]),
                          "accepted program could not be turned into assembly by the %s generator:\n%s" % (be, err[-1200:]), files={"program.dora": src})
    ctx.required_counters = ["accepted_well_typed"] + ["rejected:" + c for c in (
        "type-mismatch", "arg-count", "unknown-name", "inaccessible-name", "immutable-assign", "missing-return", "non-exhaustive-match")]
    ctx.min_distinct = 50
