"""C10 -- every place a frame can be suspended has a correct-looking stack map (DESIGN.md 5 C10, offline half).

Oracle = vlib/artifacts.py over the `.s` files written by the real compiler:
 (a) optimized code: every call to managed code / run-time entry / safepoint / allocation trampoline / indirect
     target has a gc point at its return offset (exempt: never-returning trampolines, write-barrier slow path);
 (b) every gc point of optimized code is the return offset of a call instruction;
 (c) trampoline kinds carry exactly the one map at offset 0 the stack walk looks up, the entry trampoline none;
 (d) root slots are 8-aligned and inside the frame *as of that call* (prologue frame + pushes in front of the call;
     stack-passed reference arguments inside the caller's frame), interior pairs likewise, function ranges disjoint
     (in the `.s` and, for a sample, in linked executables), location tables sorted and inside the function,
     inlined-function indices in range.
The run-time half (hook H5) lives with C03/C09.
"""
import os
import shutil

from .. import artifacts as A
from .. import build
from ..core import NCPU, REPO, scratch


def run(ctx):
    build.ensure_toolchain("rel")
    consts = A.source_constants()
    K = consts["kinds"]
    missing = [k for k in A.ALL_KINDS if k not in K]
    if missing:
        ctx.inconc("code kinds %s not found in dora-compiler/src/aot.rs" % missing)
        ctx.min_evaluations = 10 ** 18
        return
    ctx.extra["code_kinds_from_source"] = K
    ctx.rule = ("case = one emitted .s artifact = (program, code generator, target, collector); programs = 4 'touch everything' "
                "programs + a seeded slice of test/rt and bench (one per directory first) + compiler/test images in thorough; "
                "distinct = artifacts with distinct content hash; every function, call site and gc point of each artifact is checked")
    ctx.assumptions = [
        "stack depth at a call is the prologue frame plus push/sub adjustments seen on the straight-line path since the last "
        "unconditional transfer (slow paths are entered with the static frame); counters blocks_ending_with_unbalanced_sp and "
        "sp_changes_not_modelled report where that model does not apply",
        "liveness is not decided here: a map that omits a live reference is C03's business",
        "--cannon with --target arm64 is not a configuration of the baseline generator on this host (its assembler is chosen by cfg(target_arch))",
    ]
    work = scratch("c10")
    tmpdir = os.path.join(work, "tmp")
    os.makedirs(tmpdir)
    rng = ctx.rng("corpus")
    n_corpus = int(ctx.opts.get("programs", ctx.pick(7, 126)))
    programs = A.touch_programs() + A.corpus_slice(rng, n_corpus)
    jobs = []
    if not ctx.quick() or ctx.opts.get("images"):
        boots = os.path.join(REPO, "pkgs/boots/boots.dora")
        pg = os.path.join(REPO, "pkgs/postgres/src/lib.dora")
        for (backend, arch) in A.CONFIGS:
            jobs.append({"src": boots, "backend": backend, "arch": arch, "gc": None, "extra": ["--internal-compile-boots"], "timeout": 900})
            jobs.append({"src": boots, "backend": backend, "arch": arch, "gc": "copy", "extra": ["--internal-compile-boots", "--test"], "timeout": 900})
            jobs.append({"src": pg, "backend": backend, "arch": arch, "gc": "swiper", "extra": ["--test"], "timeout": 300})
    for p in programs:
        for (backend, arch) in A.CONFIGS:
            for gc in ("swiper", "copy"):
                jobs.append({"src": p, "backend": backend, "arch": arch, "gc": gc, "extra": [], "timeout": 300})
    results = A.run_jobs(A.c10_job, [(j, work, tmpdir, K, True) for j in jobs], workers=NCPU)

    seen_rules = set()
    per_config = {}
    for r in results:
        j = r.get("job") or {}
        cfg = "%s:%s" % (j.get("backend"), j.get("arch"))
        if r.get("tool_error"):
            ctx.inconc("tool failure on %s: %s" % (r["id"], r["tool_error"][-200:]))
            continue
        if "compile_failed" in r:
            rc, err = r["compile_failed"]
            ctx.count("compile_failed")
            ctx.extra.setdefault("compile_failed_examples", [])
            if len(ctx.extra["compile_failed_examples"]) < 12:
                ctx.extra["compile_failed_examples"].append("%s: %s" % (r["id"], (err or "").strip().split("\n")[0][:120]))
            if rc is None:
                ctx.inconc("compile timeout: %s" % r["id"])
            elif rc < 0 or "panicked" in err:
                # a crashing compiler is C02/C06's finding; for C10 the artifact simply does not exist
                ctx.count("compiler_crashed")
                ctx.inconc("compiler crashed (rc %s) on %s: %s" % (rc, r["id"], err.strip().split("\n")[0][:160]))
            continue
        ctx.observe(r["sha"])
        ctx.count("artifacts")
        ctx.count("artifacts_" + cfg.replace(":", "_"))
        pc = per_config.setdefault(cfg, {})
        for k, v in r["counters"].items():
            ctx.count(k, v)
            pc[k] = pc.get(k, 0) + v
        for s in r["samples"]:
            if len([x for x in ctx.samples if x.get("class") == s["class"] and x.get("config") == cfg]) == 0 and len(ctx.samples) < 14:
                s = dict(s)
                s["config"] = cfg
                s["artifact"] = r["id"]
                ctx.samples.append(s)
        for (rule, cls, what) in r["problems"]:
            key = "c10:%s:%s:%s:%s" % (rule, j.get("backend"), j.get("arch"), cls)
            files = {}
            kept = r.get("kept")
            if kept and key not in seen_rules and os.path.exists(kept):
                try:
                    files["artifact.s"] = open(kept, "rb").read()
                except OSError:
                    pass
            seen_rules.add(key)
            ctx.violation(key, "%s\n(artifact %s)" % (what, r["id"]), files=files, cmd=r.get("cmd"))
    ctx.extra["per_config"] = {c: {k: v for k, v in sorted(d.items()) if k.startswith(("calls_", "functions", "gcpoints", "root_slots",
                                                                                  "interior_pairs", "stack_argument"))}
                               for c, d in per_config.items()}

    # (d) second half: ranges registered by linked executables (x64 only: nothing links arm64 objects on this host)
    exe_dir = os.path.join(work, "exe")
    os.makedirs(exe_dir)
    exe_jobs = []
    for p in programs[:ctx.pick(6, 40)]:
        for backend in ("cannon", "boots"):
            exe_jobs.append((p, backend, exe_dir, tmpdir))
    for (p, backend, n, probs, err) in A.run_jobs(_exe_job, exe_jobs, workers=NCPU):
        if err:
            ctx.count("exe_link_failed")
            continue
        ctx.count("executables_checked")
        ctx.count("executable_ranges", n)
        ctx.observe(None)
        for (rule, what) in probs[:3]:
            ctx.violation("c10:%s:%s:x64:-" % (rule, backend), "%s\n(executable of %s)" % (what, p))
    ctx.required_counters = ["artifacts_cannon_x64", "artifacts_boots_x64", "artifacts_boots_arm64", "calls_managed", "calls_indirect",
                             "calls_runtime-entry", "calls_safepoint", "calls_allocation", "gcpoints", "root_slots",
                             "gcpoints_slots_checked_against_frame", "trampolines_with_offset0_map", "executables_checked"]
    ctx.min_distinct = ctx.pick(30, 300)
    shutil.rmtree(work, ignore_errors=True)


def _exe_job(args):
    p, backend, exe_dir, tmpdir = args
    from ..core import sha
    out = os.path.join(exe_dir, "x" + sha(p, backend)[:12])
    rc, err = A.run_tool(A.dora_cmd(p, out, backend, None, None, None), tmpdir, timeout=300, cwd=exe_dir)
    if rc != 0 or not os.path.exists(out):
        return (p, backend, 0, [], "rc=%s %s" % (rc, err[-200:]))
    try:
        n, probs = A.check_exe_ranges(out)
    except A.ToolError as e:
        return (p, backend, 0, [], str(e))
    finally:
        try:
            os.unlink(out)
        except OSError:
            pass
    return (p, backend, n, probs, None)
