"""C15 -- builds are reproducible and the compiler reproduces itself (DESIGN.md 5 C15).

Oracle: byte identity (sha256) of what the real CLI writes -- `.dora-package` (-c), `.s` (-S, x64 and arm64) and the
linked executable -- across >= 3 builds of the same input path with the same options, each in its own process,
from different working directories, to different output paths:
  clean   : fresh empty directory, cwd = that directory, relative `-o out`
  dirty   : a directory that already holds stale outputs of *other* programs under the very same output names plus a
            same-named source file of another program; cwd = that directory, absolute output path, own TMPDIR
  deep    : cwd = a deep unrelated directory, absolute output path with a different file name, own TMPDIR
  again   : exactly the `clean` conditions once more (same cwd path, same output path): only the process differs
with 1 build in flight (a serial slice of `clean`) and NCPU groups in flight (everything else).
Bootstrap: package -> stage1 (baseline-built) -> stage2 -> stage3 must give stage2 == stage3, and the optimizing
compiler built by the already bootstrapped optimizing compiler (a boots-built stage1) must equal them as well.
"""
import hashlib
import os
import shutil
import threading
import time
from concurrent.futures import ThreadPoolExecutor

from .. import artifacts as A
from .. import build
from ..core import NCPU, REPO, scratch, sha

JUNK_SRC = "fn main() { println(\"stale program\"); }\n"


def _sha_file(p):
    h = hashlib.sha256()
    n = 0
    with open(p, "rb") as fh:
        while True:
            b = fh.read(1 << 20)
            if not b:
                break
            n += len(b)
            h.update(b)
    return h.hexdigest(), n


def _diff_summary(p1, p2):
    try:
        a, b = open(p1, "rb").read(), open(p2, "rb").read()
    except OSError as e:
        return "(files gone: %s)" % e
    n = min(len(a), len(b))
    off = next((i for i in range(n) if a[i] != b[i]), n)
    ndiff = sum(1 for i in range(n) if a[i] != b[i]) if n < (64 << 20) else -1
    s = "sizes %d / %d, first difference at offset %d, %d differing bytes in the common prefix" % (len(a), len(b), off, ndiff)
    if p1.endswith(".s"):
        line = a.count(b"\n", 0, off) + 1
        la = a.split(b"\n")[line - 1][:160] if line - 1 < a.count(b"\n") + 1 else b""
        lb = b.split(b"\n")[line - 1][:160] if line - 1 < b.count(b"\n") + 1 else b""
        s += "; line %d: %r vs %r" % (line, la.decode("utf-8", "replace"), lb.decode("utf-8", "replace"))
    else:
        s += "; bytes %s vs %s" % (a[max(0, off - 8):off + 24].hex(), b[max(0, off - 8):off + 24].hex())
    return s


TOOLCHAIN_FILES = ("dora", "dora-cannon-compiler", "dora-boots-compiler", "libdora_runtime.a", "libdora_startup.a")


def toolchain_stamp():
    """Identity of the binaries a build uses. Other checks may rebuild the shared toolchain while this one runs (the
    repository under test moves); builds made by different toolchains are not builds 'with the same options'."""
    d = build.bindir("rel")
    out = []
    for n in TOOLCHAIN_FILES:
        try:
            st = os.stat(os.path.join(d, n))
        except OSError:
            return None
        out.append((n, st.st_size, st.st_mtime_ns))
    return tuple(out)


class Group:
    """All builds of one (input, artifact kind, backend, collector, target)."""

    def __init__(self, src, kind, backend, gc, arch, extra=(), timeout=300):
        self.src, self.kind, self.backend, self.gc, self.arch, self.extra, self.timeout = src, kind, backend, gc, arch, list(extra), timeout
        self.gid = sha(src, kind, backend, gc, arch, " ".join(extra))[:14]
        self.builds = {}     # scenario -> (sha, size) | ("FAILED", rc, err)
        self.stamps = {}     # scenario -> toolchain stamp the build was made with
        self.kept = {}       # scenario -> path (only while needed)
        self.lock = threading.Lock()

    def name(self):
        rel = os.path.relpath(self.src, REPO) if self.src.startswith(REPO + "/") else os.path.basename(self.src)
        return "%s [%s %s gc=%s %s %s]" % (rel, self.kind, self.backend, self.gc or "default", self.arch or "host", " ".join(self.extra))

    def mode(self):
        return {"package": "-c", "asm": "-S", "exe": None}[self.kind]

    def suffix(self):
        return ".s" if self.kind == "asm" else ""


def _cmd(g, out):
    backend = g.backend if g.kind != "package" else "boots"
    return A.dora_cmd(g.src, out, backend, g.arch if g.kind == "asm" else None, g.gc if g.kind != "package" else None, g.mode(), g.extra)


def build_once(g, scenario, work, slot):
    """One build = one process of the real CLI. Returns the path it wrote (or None)."""
    base = os.path.basename(g.src)
    scenario = {"dirty2": "dirty", "deep2": "deep"}.get(scenario, scenario)
    if scenario in ("clean", "again"):
        d = os.path.join(work, "clean", g.gid)
        shutil.rmtree(d, ignore_errors=True)
        os.makedirs(d)
        cwd, out, tmp = d, "out", os.path.join(work, "tmp")
        written = os.path.join(d, "out" + g.suffix())
    elif scenario == "dirty":
        d = os.path.join(work, "dirty", g.gid)
        os.makedirs(d, exist_ok=True)
        # stale outputs of other programs under the same names, and a same-named source of another program
        for stale in ("out", "out.s", "out.dora-package", base[:-5] + ".dora-package", "out.o"):
            p = os.path.join(d, stale)
            if not os.path.exists(p):
                with open(p, "wb") as fh:
                    fh.write(b"stale output of another program\n" * 50)
        with open(os.path.join(d, base), "w") as fh:
            fh.write(JUNK_SRC)
        cwd, out = d, os.path.join(d, "out")
        tmp = os.path.join(d, "tmp-with-a-rather-long-name")
        written = out + g.suffix()
    else:  # deep
        cwd = os.path.join(work, "deep", g.gid, "a", "b b", "c")
        os.makedirs(cwd, exist_ok=True)
        od = os.path.join(work, "o3", g.gid)
        os.makedirs(od, exist_ok=True)
        out = os.path.join(od, "a-much-longer-output-name-%s-bin" % g.gid)
        tmp = os.path.join(work, "t3", g.gid)
        written = out + g.suffix()
    try:
        os.unlink(written)
    except OSError:
        pass
    if scenario == "dirty":
        with open(written, "wb") as fh:      # the stale file the build has to replace
            fh.write(b"stale\n")
    rc, err = A.run_tool(_cmd(g, out), tmp, timeout=g.timeout, cwd=cwd)
    if rc != 0 or not os.path.exists(written):
        return None, rc, err
    if scenario == "dirty" and os.path.getsize(written) == 6:
        return None, rc, "output file was not replaced"
    return written, rc, err


def run_group(args):
    g, scenarios, work, ctxlock, results = args
    slot = threading.get_ident() % 100000
    for sc in scenarios:
        for attempt in range(3):
            st0 = toolchain_stamp()
            path, rc, err = build_once(g, sc, work, slot)
            st1 = toolchain_stamp()
            if st0 is not None and st0 == st1:
                break
            time.sleep(5)       # the toolchain was being replaced during this build: do it again
            if path is not None:
                try:
                    os.unlink(path)
                except OSError:
                    pass
            path, rc, err = None, None, "toolchain changed during the build"
        g.stamps[sc] = st1 if st0 == st1 else None
        if path is None:
            g.builds[sc] = ("FAILED", rc, (err or "")[-300:])
            continue
        h, n = _sha_file(path)
        g.builds[sc] = (h, n)
        # keep one reference file per distinct hash until the group is judged
        if h not in [v[0] for v in g.kept.values()] and len(g.kept) < 2:
            keep = os.path.join(work, "keep", "%s.%s%s" % (g.gid, sc, g.suffix()))
            os.makedirs(os.path.dirname(keep), exist_ok=True)
            os.replace(path, keep)
            g.kept[sc] = (h, keep)
        else:
            os.unlink(path)
    return g


SAME_CONDITIONS = (("clean", "again"), ("dirty", "dirty2"), ("deep", "deep2"))


def judge(ctx, g, work=None):
    if len(set(g.stamps.values())) > 1 or None in g.stamps.values():
        # the shared toolchain was rebuilt between the builds of this group: start the group over (once)
        ctx.count("groups_restarted_after_toolchain_change")
        ctx.count("builds", len(g.builds))
        scs = list(g.builds)
        drop_kept(g)
        g.builds, g.stamps = {}, {}
        if work is not None:
            run_group((g, scs, work, None, None))
        if len(set(g.stamps.values())) != 1 or None in g.stamps.values():
            ctx.inconc("toolchain kept changing while building %s" % g.name())
            return
    ok = {sc: v for sc, v in g.builds.items() if v[0] != "FAILED"}
    failed = {sc: v for sc, v in g.builds.items() if v[0] == "FAILED"}
    ctx.count("builds", len(g.builds))
    ctx.count("builds_" + g.kind, len(g.builds))
    if failed and not ok:
        ctx.count("groups_not_buildable")
        rc = list(failed.values())[0][1]
        if rc is None:
            ctx.inconc("timeout: %s" % g.name())
        return
    if failed:
        ctx.inconc("build succeeded in %s but failed in %s for %s: %s" % (sorted(ok), sorted(failed), g.name(), list(failed.values())[0][2][-160:]))
        return
    if len(ok) < 3:
        ctx.inconc("fewer than 3 builds for %s" % g.name())
        return
    ctx.observe((g.src, g.kind, g.backend, g.gc, g.arch, tuple(g.extra)))
    ctx.count("groups_" + g.kind)
    ctx.count("hashes_compared", len(ok) - 1)
    hashes = {}
    for sc, (h, n) in ok.items():
        hashes.setdefault(h, []).append(sc)
    if len(hashes) == 1:
        if len(ctx.samples) < 5 and g.kind not in [s.get("kind") for s in ctx.samples]:
            ctx.sample({"kind": g.kind, "input": g.name(), "sha256": list(hashes)[0], "bytes": list(ok.values())[0][1], "builds": sorted(ok)})
        return
    # What differs? Repeat every scenario once more under identical conditions: if two builds under the same conditions
    # differ, the output depends on the process (hash seeds, temp names, time); otherwise on the named scenario(s).
    if work is not None:
        for (first, second) in SAME_CONDITIONS:
            if first in ok and second not in g.builds:
                run_group((g, [second], work, None, None))
        ctx.count("builds", len(g.builds) - len(ok))
        if len(set(g.stamps.values())) != 1 or None in g.stamps.values():
            ctx.inconc("toolchain changed while re-building %s after a mismatch" % g.name())
            return
        ok = {sc: v for sc, v in g.builds.items() if v[0] != "FAILED"}
        hashes = {}
        for sc, (h, n) in ok.items():
            hashes.setdefault(h, []).append(sc)
    if any(a in ok and b in ok and ok[a][0] != ok[b][0] for (a, b) in SAME_CONDITIONS):
        what = "process"
    else:
        major = max(hashes.values(), key=len)
        norm = {"again": "clean", "dirty2": "dirty", "deep2": "deep"}
        dev = sorted(set(norm.get(sc, sc) for scs in hashes.values() if scs is not major for sc in scs))
        what = "+".join(dev)
    kept = list(g.kept.values())
    summary = _diff_summary(kept[0][1], kept[1][1]) if len(kept) >= 2 else "(no second file kept)"
    files = {}
    if len(kept) >= 2 and os.path.getsize(kept[0][1]) < (12 << 20):
        for i, (h, p) in enumerate(kept[:2]):
            files["build%d%s" % (i, g.suffix() or ".bin")] = open(p, "rb").read()
    ctx.violation("c15:%s:%s:%s" % (g.kind if g.kind != "asm" else "asm-" + (g.arch or "x64"), g.backend, what),
                  "%s: %d builds gave %d different contents (%s); %s" % (
                      g.name(), len(ok), len(hashes), {h[:12]: scs for h, scs in hashes.items()}, summary),
                  files=files, cmd=" ".join(_cmd(g, "out")))


def drop_kept(g, work=None):
    for (h, p) in g.kept.values():
        try:
            os.unlink(p)
        except OSError:
            pass
    g.kept = {}
    if work is not None:
        for sub in ("clean", "dirty", "deep", "o3", "t3"):
            shutil.rmtree(os.path.join(work, sub, g.gid), ignore_errors=True)


class Deferred:
    """Records Ctx calls made on another thread; replayed on the real Ctx by the main thread."""

    def __init__(self):
        self.calls = []
        self.extra = {}

    def __getattr__(self, name):
        def rec(*a, **kw):
            self.calls.append((name, a, kw))
        return rec

    def replay(self, ctx):
        ctx.extra.update(self.extra)
        for (name, a, kw) in self.calls:
            getattr(ctx, name)(*a, **kw)


def bootstrap_chain(ctx, work, thorough):
    for attempt in range(3):
        rec = Deferred()
        st0 = toolchain_stamp()
        bootstrap_chain_once(rec, work, thorough)
        if st0 is not None and st0 == toolchain_stamp():
            ctx.calls += rec.calls
            ctx.extra.update(rec.extra)
            return
        shutil.rmtree(os.path.join(work, "bootstrap"), ignore_errors=True)
    ctx.inconc("toolchain kept changing during the bootstrap chain")


def bootstrap_chain_once(ctx, work, thorough):
    """stage1 (baseline-built) -> stage2 -> stage3; boots-built stage1 and its stage2. All from one package."""
    d = os.path.join(work, "bootstrap")
    shutil.rmtree(d, ignore_errors=True)
    os.makedirs(d)
    tmp = os.path.join(d, "tmp")
    dora = build.dora("rel")
    src = os.path.join(REPO, "pkgs", "boots", "boots.dora")
    log = []

    def step(out, *flags, input_=None):
        cmd = [dora, "compile", "--internal-compile-boots"] + list(flags) + [input_ or pkg, "-o", out]
        t0 = time.time()
        rc, err = A.run_tool(cmd, tmp, timeout=1800, cwd=d)
        log.append("%s rc=%s %.0fs" % (" ".join(cmd[2:]), rc, time.time() - t0))
        if rc != 0 or not os.path.exists(out):
            raise RuntimeError("bootstrap step failed: %s\n%s" % (" ".join(cmd), (err or "")[-400:]))
        return out

    pkg = os.path.join(d, "boots.dora-package")
    try:
        step(pkg, "-c", input_=src)
        pkg2 = step(os.path.join(d, "boots2.dora-package"), "-c", input_=src)
        with ThreadPoolExecutor(3) as ex:
            f1 = ex.submit(step, os.path.join(d, "stage1"), "--cannon")
            f1b = ex.submit(step, os.path.join(d, "stage1-built-by-boots"), "--compiler", os.path.join(build.bindir("rel"), "dora-boots-compiler"))
            f1r = ex.submit(step, os.path.join(d, "stage1-again"), "--cannon") if thorough else None
            s1, s1b = f1.result(), f1b.result()
            s1r = f1r.result() if f1r else None
        with ThreadPoolExecutor(2) as ex:
            f2 = ex.submit(step, os.path.join(d, "stage2"), "--compiler", s1)
            f2b = ex.submit(step, os.path.join(d, "stage2-from-boots-built-stage1"), "--compiler", s1b)
            s2, s2b = f2.result(), f2b.result()
        s3 = step(os.path.join(d, "stage3"), "--compiler", s2)
    except (RuntimeError, OSError) as e:
        ctx.inconc("bootstrap chain not completed: %s" % str(e)[-300:])
        ctx.extra["bootstrap_log"] = log
        return
    ctx.extra["bootstrap_log"] = log
    H = {os.path.basename(p): _sha_file(p) for p in (pkg, pkg2, s1, s1b, s2, s2b, s3) + ((s1r,) if s1r else ())}
    ctx.extra["bootstrap_hashes"] = {k: "%s (%d bytes)" % (v[0][:16], v[1]) for k, v in H.items()}
    ctx.count("bootstrap_builds", len(H))

    def same(a, b, key, what):
        ctx.count("bootstrap_comparisons")
        ctx.count("hashes_compared")
        ctx.observe(("bootstrap", key))
        if H[a][0] != H[b][0]:
            ctx.violation("c15:bootstrap:%s" % key, "%s: %s differs from %s; %s" % (
                what, a, b, _diff_summary(os.path.join(d, a), os.path.join(d, b))), cmd="; ".join(log))

    same("boots.dora-package", "boots2.dora-package", "package", "two front-end runs over pkgs/boots")
    same("stage2", "stage3", "stage2-vs-stage3", "the optimizing compiler compiled by itself does not reproduce itself")
    same("stage1-built-by-boots", "stage2", "boots-built-stage1-vs-stage2", "the compiler image built by the bootstrapped compiler vs. by the baseline-built stage1")
    same("stage2-from-boots-built-stage1", "stage2", "stage2-by-origin-of-stage1", "stage2 depends on which correct compiler built stage1")
    if s1r:
        same("stage1", "stage1-again", "stage1-repeat", "two baseline builds of the compiler image")
    ctx.sample({"kind": "bootstrap", "stage2": H["stage2"][0], "stage3": H["stage3"][0], "stage1_by_boots": H["stage1-built-by-boots"][0],
                "stage1_by_cannon": H["stage1"][0], "bytes": H["stage2"][1]})
    shutil.rmtree(d, ignore_errors=True)


def order_bait(rng):
    """A program whose lowering walks through the compiler's hash maps in many places: integer / enum matches in which several
    distinct values have a guarded first arm (seeded change C15: the per-value decision chains were emitted in HashMap order),
    many string constants, lambdas, generic instantiations, trait impls and globals. Deterministic text from rng."""
    L = ["enum Color { Red, Green, Blue, Cyan, Magenta, Yellow, Black, White }",
         "trait Shape { fn area(): Int64; }"]
    ntypes = rng.randint(4, 9)
    for i in range(ntypes):
        L += ["class S%d { v: Int64 }" % i, "impl Shape for S%d { fn area(): Int64 { self.v * %di64 } }" % (i, i + 2)]
    L += ["fn twice[T](x: T, f: (T): T): T { f(f(x)) }"]
    for i in range(rng.randint(3, 8)):
        L.append("let mut g%d: Int64 = %d;" % (i, rng.randint(-1000, 1000)))
    nf = rng.randint(6, 14)
    calls = []
    for k in range(nf):
        kind = rng.choice(["Int64", "Int32", "UInt8", "Color"])
        nvals = rng.randint(2, 9)
        if kind == "Color":
            names = ["Red", "Green", "Blue", "Cyan", "Magenta", "Yellow", "Black", "White"]
            vals = ["Color::" + v for v in rng.sample(names, min(nvals, 7))]
            arg = "Color::" + rng.choice(names)
        else:
            lim = {"Int64": 10 ** 12, "Int32": 10 ** 9, "UInt8": 255}[kind]
            lo = 0 if kind == "UInt8" else -lim
            suffix = {"Int64": "", "Int32": "i32", "UInt8": "u8"}[kind]
            raw = sorted(set(rng.randint(lo, lim) for _ in range(nvals)))
            rng.shuffle(raw)
            vals = [("%d%s" % (v, suffix)) if v >= 0 else ("-%d%s" % (-v, suffix)) for v in raw]
            arg = rng.choice(vals)
        L.append("fn m%d(x: %s, c: Int64): Int64 {" % (k, kind))
        L.append("    match x {")
        r = 0
        for v in vals:
            for _ in range(rng.randint(1, 2)):
                L.append("        %s if c > %di64 => %di64," % (v, rng.randint(-5, 5), r))
                r += 1
            if rng.random() < 0.7:
                L.append("        %s => %di64," % (v, r))
                r += 1
        L.append("        _ if c == 77i64 => %di64," % r)
        L.append("        _ => %di64," % (r + 1))
        L.append("    }")
        L.append("}")
        calls.append("m%d(%s, g%d)" % (k, arg, 0))
    L.append("fn main() {")
    L.append("    let mut acc = 0i64;")
    for c in calls:
        L.append("    acc = acc + %s;" % c)
    for i in range(ntypes):
        L.append("    let o%d = S%d(v = %di64) as Shape;" % (i, i, i + 1))
        L.append("    acc = acc + o%d.area();" % i)
    for i in range(rng.randint(3, 8)):
        L.append("    let k%d = %di64;" % (i, rng.randint(1, 99)))
        L.append("    acc = acc + twice[Int64](acc, |v: Int64|: Int64 { v + k%d });" % i)
        L.append("    println(\"s%d-%d ${acc}\");" % (i, rng.randint(0, 10 ** 6)))
    L.append("    println(twice[String](\"a\", |v: String|: String { v + \"b\" }));")
    L.append("    println(\"${acc}\");")
    L.append("}")
    return "\n".join(L) + "\n"


def generated_programs(ctx):
    """Generator programs at a stable path (the input path is part of the emitted metadata)."""
    from ..gen import build as gbuild
    d = os.path.join(build.BUILD, "corpus", "gen15")
    os.makedirs(d, exist_ok=True)
    out = []
    srcs = []
    for i in range(ctx.pick(3, 12)):
        srcs.append(("bait_s%s_%d" % (ctx.seed, i), order_bait(ctx.rng("bait", i))))
    for i in range(ctx.pick(2, 10)):
        g = gbuild.Gen(ctx.rng("typed", i), gbuild.ALL_FEATURES)
        srcs.append(("typed_s%s_%d" % (ctx.seed, i), g.program(6, argv_mode=True).source()))
    for name, src in srcs:
        p = os.path.join(d, name + ".dora")
        with open(p + ".tmp%d" % os.getpid(), "w") as fh:
            fh.write(src)
        os.replace(p + ".tmp%d" % os.getpid(), p)
        out.append(p)
    ctx.count("generated_programs", len(out))
    return out


def run(ctx):
    build.ensure_toolchain("rel")
    work = scratch("c15")
    ctx.rule = ("case = group = (input path, artifact kind package/.s/executable, code generator, collector, target); every group is built "
                ">= 3 times by separate processes under the scenarios clean/dirty/deep(/again) and the sha256 of the outputs compared; "
                "distinct = groups with all builds successful; inputs = touch programs + generated programs (hash-order bait: matches with several "
                "guarded values, many impls/lambdas/instantiations/constants; typed-generator programs) + seeded slice of test/rt and bench")
    ctx.assumptions = [
        "the input path is spelled identically (absolute) in all builds of a group: the path string is part of the emitted "
        "function metadata by design (measured in extra.input_path_spelling_changes_output)",
        "environment differences exercised: process, hash seeds, cwd, output directory and name, TMPDIR, neighbours in the output "
        "directory, number of concurrent builds; not exercised: different machines, users, locales",
    ]
    rng = ctx.rng("corpus")
    n = int(ctx.opts.get("programs", ctx.pick(56, 396)))
    programs = A.touch_programs() + generated_programs(ctx) + A.corpus_slice(rng, n)
    groups = []
    for i, p in enumerate(programs):
        groups.append(Group(p, "package", "-", None, None))
        for backend in ("cannon", "boots"):
            for gc in ("swiper", "copy"):
                # quick: every program gets two of the four (generator, collector) pairs, alternating; the touch
                # programs and the thorough tier get all four
                diag = ((backend == "cannon") == (gc == "swiper")) == (i % 2 == 0)
                if not ctx.quick() or i < 4 or diag:
                    groups.append(Group(p, "exe", backend, gc, None))
                if not ctx.quick() or i < 4 or not diag:
                    groups.append(Group(p, "asm", backend, gc, "x64"))
                # arm64 .s (optimizing generator only) alternates the collector
                if backend == "boots" and (gc == "swiper") == (i % 2 == 0):
                    groups.append(Group(p, "asm", backend, gc, "arm64"))
    heavy = []
    boots = os.path.join(REPO, "pkgs/boots/boots.dora")
    heavy.append(Group(os.path.join(REPO, "pkgs/std/std.dora"), "package", "-", None, None, ["--internal-compile-stdlib"]))
    heavy.append(Group(os.path.join(REPO, "pkgs/postgres/src/lib.dora"), "asm", "boots", "swiper", "x64", ["--test"]))
    if not ctx.quick():
        heavy.append(Group(boots, "asm", "boots", None, "x64", ["--internal-compile-boots"], 1200))
        heavy.append(Group(boots, "asm", "boots", None, "arm64", ["--internal-compile-boots"], 1200))
        heavy.append(Group(boots, "asm", "cannon", None, "x64", ["--internal-compile-boots"], 1200))
        heavy.append(Group(boots, "asm", "boots", "copy", "x64", ["--internal-compile-boots", "--test"], 1200))
        heavy.append(Group(boots, "exe", "cannon", "copy", None, ["--internal-compile-boots", "--test"], 1200))
        heavy.append(Group(os.path.join(REPO, "pkgs/postgres/src/lib.dora"), "exe", "boots", "copy", None, ["--test"]))
        heavy.append(Group(os.path.join(REPO, "pkgs/postgres/src/lib.dora"), "exe", "cannon", "swiper", None, ["--test"]))

    boot = Deferred()
    boot_thread = threading.Thread(target=bootstrap_chain, args=(boot, work, not ctx.quick()))
    boot_thread.start()

    # phase 1: one build in flight (serial `clean` builds of a slice)
    serial = [g for g in groups if g.kind != "package"][::max(1, len(groups) // ctx.pick(14, 60))][:ctx.pick(14, 60)]
    for g in serial:
        run_group((g, ["clean"], work, None, None))
        ctx.count("builds_with_one_in_flight")
    serial_ids = set(g.gid for g in serial)

    # phase 2: NCPU groups in flight
    argl = []
    for i, g in enumerate(heavy + groups):
        if g.gid in serial_ids:
            sc = ["dirty", "deep", "again"]
        elif i % 4 == 0:
            sc = ["clean", "dirty", "deep", "again"]
        else:
            sc = ["clean", "dirty", "deep"]
        argl.append((g, sc, work, None, None))
    with ThreadPoolExecutor(max_workers=NCPU) as ex:
        for g in ex.map(run_group, argl):
            judge(ctx, g, work)
            drop_kept(g, work)
    ctx.count("builds_with_many_in_flight", sum(len(a[1]) for a in argl))
    ctx.count("distinct_inputs", len(programs) + 3)
    ctx.count("processes", ctx.counters.get("builds", 0))

    # measured fact (not a verdict): does the spelling of the input path change the output?
    try:
        p = programs[0]
        d1 = os.path.join(work, "spelling")
        os.makedirs(d1)
        rel = os.path.relpath(p, d1)
        r1 = A.run_tool(A.dora_cmd(p, os.path.join(d1, "abs"), "boots", "x64", None, "-S"), os.path.join(work, "tmp"), cwd=d1)
        r2 = A.run_tool(A.dora_cmd(rel, os.path.join(d1, "rel"), "boots", "x64", None, "-S"), os.path.join(work, "tmp"), cwd=d1)
        if r1[0] == 0 and r2[0] == 0:
            ctx.extra["input_path_spelling_changes_output"] = _sha_file(os.path.join(d1, "abs.s"))[0] != _sha_file(os.path.join(d1, "rel.s"))[0]
    except OSError:
        pass
    boot_thread.join()
    boot.replay(ctx)
    ctx.required_counters = ["groups_package", "groups_asm", "groups_exe", "bootstrap_comparisons", "builds_with_one_in_flight", "hashes_compared"]
    ctx.min_distinct = ctx.pick(150, 1500)
    shutil.rmtree(work, ignore_errors=True)
