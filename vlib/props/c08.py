"""C08 -- every AArch64 instruction is encoded as the instruction that was requested (DESIGN.md 5 C08).

Oracle: LLVM's AArch64 assembler/disassembler (`llvm-mc -triple=aarch64 -mattr=+lse,+neon,+fp-armv8`).
For every request (method, operands) the requested instruction is rendered as assembly text R from the template
table in vlib/asmspec/arm64.py; AArch64 encodings are unique, so the emitted word must equal assemble(R). A request
whose R LLVM rejects is architecturally unencodable and must be refused (panic/assert); returning any word for it
is `accepted-illegal`. Multi-instruction helpers (mov_imm, ldr_mem_*, str_mem_*, cbz/tbz/b.cond to labels) are
checked by symbolic evaluation of LLVM's disassembly. Immediate encoders/predicates are compared with independent
Python implementations. The same requests are run against pkgs/boots/assembler/arm64.dora through a generated
`@Test` module compiled by the real compiler.
"""
import json
import os
import re
import shutil
import subprocess
import time

from .. import build, core, inproc
from ..asmspec import arm64 as A

MAX_LIST = 12


class Req:
    __slots__ = ("idx", "name", "meth", "entry", "ops", "status", "words", "loc", "msg", "pred")

    def __init__(self, idx, meth, entry, ops):
        self.idx = idx
        self.name = meth.name
        self.meth = meth
        self.entry = entry
        self.ops = ops
        self.status = None
        self.words = ()
        self.loc = ""
        self.msg = ""
        self.pred = None


def _req_text(r):
    return "%s(%s)" % (r.name, ", ".join("%s=%s" % (n, A.op_text(k, v)) for n, k, v in zip(r.meth.pnames, r.meth.kinds, r.ops)))


def _weight(r):
    w = 0
    for k, v in zip(r.meth.kinds, r.ops):
        if isinstance(v, bool):
            w += int(v)
        elif isinstance(v, int):
            w += min(abs(v), 1 << 40) if k in ("I", "L") else (v + (100 if v > 30 else 0))
    return w


def build_requests(ctx, lang, methods, stream, tier=None, scale=None):
    """-> (requests, uncovered [(name, why)])"""
    reqs = []
    uncovered = []
    tier = tier or ctx.tier
    scale = float(ctx.opts.get("scale", "1")) if scale is None else scale
    only = ctx.opts.get("only")
    for mi, name in enumerate(sorted(methods)):
        meth = methods[name]
        if only and not re.fullmatch(only, name):
            continue
        entry = A.spec_for(lang, name)
        if entry is None:
            uncovered.append((name, "no template for this method in vlib/asmspec/arm64.py"))
            continue
        if meth.unknown:
            uncovered.append((name, "operand type `%s` is not modelled" % meth.unknown))
            continue
        if meth.kinds != entry.kinds:
            uncovered.append((name, "signature changed: source has operand kinds %s (%s), the template expects %s" % (
                meth.kinds, ", ".join("%s: %s" % p for p in meth.params), entry.kinds)))
            continue
        rng = ctx.rng(stream, mi)
        for ops in A.gen_requests(meth, entry, rng, tier, scale):
            reqs.append(Req(len(reqs), meth, entry, ops))
    return reqs, uncovered


def run_rust(ctx, reqs, work):
    path = os.path.join(work, "requests.tsv")
    with open(path, "w") as f:
        for r in reqs:
            f.write("\t".join([str(r.idx), r.name] + A.serialize(r.meth, r.ops)) + "\n")
    res = inproc.run_sharded("vh-asm-arm64", "run", ctx.seed, len(reqs), "c08-rust", kv={"req": path},
                             timeout=ctx.pick(600, 1800))
    out = os.path.join(core.BUILD, "scratch", "c08-rust")
    for root, _, files in os.walk(out):
        for fn in files:
            if fn.startswith("res_") and fn.endswith(".tsv"):
                with open(os.path.join(root, fn)) as f:
                    for line in f:
                        p = line.rstrip("\n").split("\t")
                        r = reqs[int(p[0])]
                        r.status = p[1]
                        r.words = tuple(int(w, 16) for w in p[2].split(",")) if p[2] else ()
                        r.loc = p[3]
                        r.msg = p[4]
    for d in res.deaths:
        what = _req_text(reqs[d["idx"]]) if d.get("idx") is not None and d["idx"] < len(reqs) else "?"
        ctx.violation("c08:child-death:rc=%s" % d["rc"], "harness child died (rc=%s) on request %s: %s" % (
            d["rc"], what, d["log"][-400:]), files={"request.txt": what})
    missing = sum(1 for r in reqs if r.status is None)
    if missing:
        ctx.inconc("%d requests were not answered by the Rust harness" % missing)
    for s in res.timeouts:
        ctx.inconc("rust harness shard %d hit the wall-clock watchdog" % s)
    return res


def prepare(ctx, reqs, work):
    """render every request and let LLVM assemble the texts -> (alts, asm); r.pred = LLVM accepts the request"""
    alts = {}
    lines = set()
    for r in reqs:
        if r.entry.sym is not None:
            r.pred = A.sym_legal(r.entry, r.meth.kinds, r.ops)
            continue
        a = r.entry.render(r.ops)
        alts[r.idx] = a
        for alt in a:
            lines.update(alt)
    asm, n1 = A.assemble(lines, work)
    ctx.count("llvm_mc_invocations", n1)
    ctx.count("llvm_assembled_texts", len(lines))
    ctx.count("llvm_rejected_texts", sum(1 for v in asm.values() if v[0] is None))
    for r in reqs:
        if r.entry.sym is None:
            r.pred = any(all(asm[ln][0] is not None for ln in alt) for alt in alts[r.idx])
    return alts, asm


def judge(ctx, lang, reqs, work, prep):
    """compare every answered request with the reference; report grouped violations"""
    pfx = "" if lang == "rust" else "dora."
    t0 = time.time()
    alts, asm = prep
    words = set()
    for r in reqs:
        words.update(r.words)
    dis, n2 = A.disassemble(words, work)
    ctx.count("llvm_mc_invocations", n2)
    ctx.count("llvm_disassembled_words", len(words))
    fails = {}          # (name, kind) -> [(req, detail, expected words)]
    refused_legal = {}
    covered = set()
    answered = {}

    def fail(r, kind, detail, exp=None):
        fails.setdefault((r.name, kind), []).append((r, detail, exp))

    for r in reqs:
        if r.status is None:
            ctx.count(lang + "_unanswered")
            continue
        if r.status == "notrun":
            ctx.count(lang + "_not_run_refusal_predicted")
            continue
        shape = A.shape(r.meth.kinds, r.ops)
        ctx.observe((lang, r.name, shape))
        ctx.count(lang + "_requests")
        covered.add(r.name)
        answered[r.name] = answered.get(r.name, 0) + (r.status == "ok")
        if r.status == "skip":
            ctx.count(lang + "_skipped_impossible")
            continue
        bad_word = [w for w in r.words if dis.get(w) is None]
        if r.entry.sym is not None:
            legal = A.sym_legal(r.entry, r.meth.kinds, r.ops)
            if r.status == "refused":
                if legal:
                    ctx.count(lang + "_refused_legal")
                    refused_legal.setdefault(r.name, []).append(r)
                else:
                    ctx.count(lang + "_refused_illegal")
                continue
            ctx.count(lang + "_answered")
            if bad_word:
                fail(r, "invalid-encoding", "word %08x is not a valid A64 instruction" % bad_word[0])
                continue
            v = A.SYM_CHECK[r.entry.sym](r.name, r.ops, [dis[w] for w in r.words])
            if v is not None:
                fail(r, "sym:" + v[0], v[1])
            continue
        exp = []
        errs = []
        for alt in alts[r.idx]:
            ws = []
            for ln in alt:
                w, e = asm[ln]
                if w is None:
                    errs.append("%s: %s" % (ln, e))
                    ws = None
                    break
                ws.extend(w)
            if ws is not None:
                exp.append(tuple(ws))
        legal = bool(exp)
        if r.status == "refused":
            if legal:
                ctx.count(lang + "_refused_legal")
                refused_legal.setdefault(r.name, []).append(r)
            else:
                ctx.count(lang + "_refused_illegal")
            continue
        ctx.count(lang + "_answered")
        if legal:
            if bad_word:
                fail(r, "invalid-encoding", "word %08x is not a valid A64 instruction" % bad_word[0])
                continue
            if r.words in exp:
                ctx.count(lang + "_words_equal_reference")
                continue
            e0 = exp[0]
            if len(r.words) != len(e0):
                fail(r, "wrong-length", "emitted %d words, the requested instruction is %d" % (len(r.words), len(e0)), e0)
            else:
                k = [i for i in range(len(e0)) if e0[i] != r.words[i]][0]
                fail(r, "mismatch", A.diff_regions(e0[k], r.words[k]), e0)
            continue
        if errs and all("unpredictable" in e for e in errs) and not bad_word:
            # LLVM's assembler refuses constrained-unpredictable register combinations, its disassembler prints them:
            # compare the texts instead of the words
            got = A.norm_text(" ; ".join(dis[w] for w in r.words))
            want = A.norm_text(" ; ".join(alts[r.idx][0]))
            ctx.count(lang + "_unpredictable_requests")
            if got != want:
                fail(r, "mismatch-unpredictable", "decodes to `%s`" % got)
            continue
        fail(r, "accepted-illegal", "the request is not encodable (LLVM: %s) but a word was returned%s" % (
            "; ".join(errs)[:300], " -- and it is not even a valid instruction" if bad_word else ""))

    for (name, kind), items in sorted(fails.items()):
        items.sort(key=lambda it: _weight(it[0]))
        r, detail, exp = items[0]
        shapes = sorted(set(A.shape(it[0].meth.kinds, it[0].ops) for it in items))
        if kind == "mismatch":
            # one key per method: the union of the instruction-word regions that differ over all failing requests
            regs = set()
            for it in items:
                regs.update(it[1].split("+"))
            kind = "mismatch@" + "+".join(n for (n, _, _) in A.FIELD_REGIONS if n in regs)
            detail = "differs from the reference in " + detail
        got = " ".join("%08x" % w for w in r.words)
        decoded = " ; ".join(str(dis.get(w)) for w in r.words)
        if r.entry.sym is None:
            want = " | ".join(" ; ".join(a) for a in alts[r.idx])
        else:
            want = "(helper checked by symbolic evaluation: %s)" % r.entry.sym
        what = ("%s assembler, %s: %s\n  minimal request: %s\n  requested instruction: %s\n  emitted: %s  = `%s`" % (
            lang, name, kind, _req_text(r), want, got, decoded))
        if exp:
            what += "\n  reference: %s" % " ".join("%08x" % w for w in exp)
        if detail:
            what += "\n  %s" % detail
        what += "\n  %d failing requests in %d operand-shape classes: %s" % (
            len(items), len(shapes), "; ".join(shapes[:MAX_LIST]) + (" ..." if len(shapes) > MAX_LIST else ""))
        listing = "".join("%s\temitted=%s\t%s\n" % (_req_text(it[0]), ",".join("%08x" % w for w in it[0].words), it[1])
                          for it in items[:300])
        ctx.violation("c08:%s%s:%s" % (pfx, name, kind), what, files={"failing_requests.tsv": listing},
                      cmd="VERIF_SEED=%d ./check C08 --tier %s --opt only=%s" % (ctx.seed, ctx.tier, re.escape(name)))
    for name in sorted(covered):
        if not answered.get(name):
            ctx.inconc("%s assembler: no request for `%s` was answered (all refused or skipped): the method is not checked" % (lang, name))
    rl = {}
    for name, items in sorted(refused_legal.items()):
        items.sort(key=_weight)
        rl[name] = {"count": len(items), "example": _req_text(items[0]), "panic": "%s %s" % (items[0].loc, items[0].msg)}
    ctx.extra[lang + "_refused_although_encodable"] = {
        "note": "requests the architecture can encode but the assembler's API refuses (not a violation: nothing wrong "
                "is emitted); count per method with the smallest example",
        "methods": len(rl), "by_method": rl}
    ctx.count(lang + "_judge_seconds", round(time.time() - t0, 1))
    return covered


def rust_surface(ctx):
    src = os.path.join(core.REPO, "dora-asm", "src", "arm64.rs")
    rs = A.parse_rust(src)
    out = subprocess.run([build.harness_bin("vh-asm-arm64"), "list"], capture_output=True, text=True, check=True).stdout
    listing = json.loads(out)
    callable_names = {m["name"] for m in listing["methods"]}
    methods = {}
    uncovered = []
    for name, m in rs["methods"].items():
        if name in A.RUST_NON_INSTRUCTION:
            continue
        if name not in callable_names:
            why = [s["why"] for s in listing["skipped"] if s["name"] == name]
            uncovered.append((name, why[0] if why else "not found by the harness build script"))
            continue
        methods[name] = m
    for name in rs["other"]:
        if name not in A.RUST_NON_INSTRUCTION:
            uncovered.append((name, "public function of AssemblerArm64 with an unexpected shape (not `&mut self` without result)"))
    for name in rs["free"]:
        if name not in A.RUST_FREE_COVERED:
            uncovered.append((name, "free public function without a reference implementation"))
    for name in rs["cls"]:
        if name not in A.RUST_CLS_COVERED:
            uncovered.append(("cls::" + name, "public encoder function without a template"))
    present = len(methods) + len(uncovered)
    # pseudo-method: the one public instruction-class encoder
    if "uncond_branch_imm" in rs["cls"]:
        methods["cls::uncond_branch_imm"] = A.Method("cls::uncond_branch_imm", [("op", "u32"), ("imm26", "i32")], "rust")
    return methods, uncovered, present


def check_imm(ctx):
    """encode_logical_imm (through and_imm/and_imm_w), fits_*/shift_*/count_empty_half_words"""
    nrand = ctx.pick(100000, 1000000)
    res = inproc.run_sharded("vh-asm-arm64", "imm", ctx.seed, 64, "c08-imm", kv={"nrand": nrand}, timeout=900)
    out = os.path.join(core.BUILD, "scratch", "c08-imm")
    cols = ["encode_logical_imm64", "encode_logical_imm32", "fits_movz64", "fits_movz32", "fits_movn64", "fits_movn32",
            "shift_movz", "shift_movn", "count_empty_half_words64", "count_empty_half_words32", "fits_addsub_imm",
            "fits_ldst_unscaled"]
    bad = {}
    seen = set()
    n = 0
    for root, _, files in os.walk(out):
        for fn in files:
            if not (fn.startswith("imm_") and fn.endswith(".tsv")):
                continue
            with open(os.path.join(root, fn)) as f:
                for line in f:
                    p = line.rstrip("\n").split("\t")
                    v = int(p[0], 16)
                    n += 1
                    seen.add(v)
                    ref = A.ref_imm_line(v)
                    for k in range(2):
                        got = p[1 + k]
                        want = ref[k]
                        base = 0x92000020 if k == 0 else 0x12000020
                        if want is None:
                            if got != "-":
                                bad.setdefault((cols[k], "accepted-unencodable"), []).append((v, got, "refusal"))
                        elif got == "-":
                            bad.setdefault((cols[k], "refused-encodable"), []).append((v, got, "%x" % (base | want << 10)))
                        elif int(got, 16) != base | want << 10:
                            bad.setdefault((cols[k], "wrong-field"), []).append((v, got, "%x" % (base | want << 10)))
                    for k in range(2, 12):
                        if p[1 + k] != str(ref[k]):
                            bad.setdefault((cols[k], "wrong-result"), []).append((v, p[1 + k], str(ref[k])))
    ctx.count("imm_values_checked", n)
    ctx.count("imm_distinct_values", len(seen))
    ctx.count("imm_valid_logical64_seen", sum(1 for v in A.LOGICAL64 if v in seen))
    ctx.count("imm_valid_logical64_exist", len(A.LOGICAL64))
    ctx.count("imm_valid_logical32_seen", sum(1 for v in A.LOGICAL32 if v in seen))
    ctx.count("imm_valid_logical32_exist", len(A.LOGICAL32))
    ctx.observe(("imm", "values"), n=n)
    for (col, kind), items in sorted(bad.items()):
        items.sort()
        v, got, want = items[0]
        ctx.violation("c08:%s:%s" % (col, kind),
                      "%s(%#x) gives %s, the independent implementation says %s (%d values differ)" % (col, v, got, want, len(items)),
                      files={"values.tsv": "".join("%#x\t%s\t%s\n" % it for it in items[:500])})
    for d in res.deaths:
        ctx.violation("c08:imm-child-death:rc=%s" % d["rc"], "harness child died in imm mode: %s" % d["log"][-400:])
    for s in res.timeouts:
        ctx.inconc("imm shard %d hit the watchdog" % s)


# ------------------------------------------------------------------------------------------------
# Dora assembler (pkgs/boots/assembler/arm64.dora): a scratch copy of the boots package gets one generated module with
# a single `@Test` function that decodes requests from argv, calls the same-named methods and prints the words. The
# other `@Test` annotations of the copy are removed so that only the dispatcher runs. A failed `assert`/panic ends the
# process: the driver records the request as refused and restarts after it.

DORA_PRELUDE = """
mod c08gen {
    use package::assembler::{FloatRegister, Label, Register};
    use super::{AssemblerArm64, Cond, Extend, Shift, REG_SP, REG_ZERO};

    fn reg(v: Int64): Register {
        if v == 31 { REG_ZERO } else if v == 32 { REG_SP } else { assert(v >= 0 && v < 31); Register(v.to_int32().to_uint8()) }
    }
    fn freg(v: Int64): FloatRegister { assert(v >= 0 && v < 32); FloatRegister(v.to_int32().to_uint8()) }
    fn shift(v: Int64): Shift {
        if v == 0 { Shift::LSL } else if v == 1 { Shift::LSR } else if v == 2 { Shift::ASR } else { Shift::ROR }
    }
    fn extend(v: Int64): Extend {
        if v == 0 { Extend::UXTB } else if v == 1 { Extend::UXTH } else if v == 2 { Extend::LSL }
        else if v == 3 { Extend::UXTW } else if v == 4 { Extend::UXTX } else if v == 5 { Extend::SXTB }
        else if v == 6 { Extend::SXTH } else if v == 7 { Extend::SXTW } else { Extend::SXTX }
    }
    fn cond(v: Int64): Cond {
        if v == 0 { Cond::EQ } else if v == 1 { Cond::NE } else if v == 2 { Cond::CS } else if v == 3 { Cond::HS }
        else if v == 4 { Cond::CC } else if v == 5 { Cond::LO } else if v == 6 { Cond::MI } else if v == 7 { Cond::PL }
        else if v == 8 { Cond::VS } else if v == 9 { Cond::VC } else if v == 10 { Cond::HI } else if v == 11 { Cond::LS }
        else if v == 12 { Cond::GE } else if v == 13 { Cond::LT } else if v == 14 { Cond::GT } else { Cond::LE }
    }
    fn lbl_before(asm: AssemblerArm64, d: Int64): Label {
        if d <= 0 {
            let l = asm.create_and_bind_label();
            let mut i = 0;
            while i < -d {
                if d > -4097 { asm.nop(); } else { asm.emit_int32(0i32); }
                i = i + 1;
            }
            l
        } else {
            asm.create_label()
        }
    }
    // false: the label would lie inside the emitted code (impossible request)
    fn lbl_after(asm: AssemblerArm64, l: Label, d: Int64, start: Int64): Bool {
        if d > 0 {
            let target = start + 4 * d;
            if target < asm.buffer.position() { return false; }
            if d <= 4096 {
                while asm.buffer.position() < target { asm.nop(); }
                asm.bind_label(l);
            } else {
                // as if (target - position) / 4 further instructions had been emitted (bind_label binds to the buffer end)
                l.bind_to(target);
            }
        }
        true
    }
    fn arg(i: Int32): Int64 { std::argv(i).to_int64().get_or_panic() }

    @Test
    fn c08_dispatch() {
        let argc = std::argc();
        let mut i = 0i32;
        println("");
        while i < argc {
            let idx = arg(i);
            let m = arg(i + 1i32);
            let n = arg(i + 2i32).to_int32();
            let a = Array[Int64]::zero(8);
            let mut k = 0i32;
            while k < n {
                a(k.to_int64()) = arg(i + 3i32 + k);
                k = k + 1i32;
            }
            i = i + 3i32 + n;
            let asm = AssemblerArm64::new();
            let (start, end) = call(asm, m, a);
            if start < 0 {
                println("S ${idx}");
            } else {
                asm.resolve_jumps();
                let bytes = asm.finalize();
                let mut line = "R ${idx}";
                let mut p = start;
                while p + 4 <= end && p + 4 <= bytes.size() {
                    let w = bytes(p).to_int64() | bytes(p + 1).to_int64() << 8i32 | bytes(p + 2).to_int64() << 16i32
                        | bytes(p + 3).to_int64() << 24i32;
                    line = "${line} ${w}";
                    p = p + 4;
                }
                println(line);
            }
        }
    }
"""


def dora_module(methods):
    """-> (module text, {method name: id})"""
    ids = {}
    fns = []
    arms = []
    for name in sorted(methods):
        m = methods[name]
        mid = len(ids)
        ids[name] = mid
        args = []
        pre = []
        post = ""
        lbl = None
        for k, (kind, ty) in enumerate(zip(m.kinds, m.types)):
            if kind == "R":
                args.append("reg(a(%d))" % k)
            elif kind == "F":
                args.append("freg(a(%d))" % k)
            elif kind == "SH":
                args.append("shift(a(%d))" % k)
            elif kind == "EXT":
                args.append("extend(a(%d))" % k)
            elif kind == "C":
                args.append("cond(a(%d))" % k)
            elif kind == "B":
                args.append("a(%d) != 0" % k)
            elif kind == "L":
                lbl = k
                pre.append("let l = lbl_before(asm, a(%d));" % k)
                args.append("l")
            elif ty == "Int64":
                args.append("a(%d)" % k)
            else:
                args.append("a(%d).to_int32()" % k)
        body = "        %s\n        let start = asm.buffer.position();\n        asm.%s(%s);\n        let end = asm.buffer.position();\n" % (
            " ".join(pre), name, ", ".join(args))
        if lbl is not None:
            body += "        if !lbl_after(asm, l, a(%d), start) { return (-1, -1); }\n" % lbl
        body += "        (start, end)\n"
        fns.append("    fn m%d(asm: AssemblerArm64, a: Array[Int64]): (Int64, Int64) {\n%s    }\n" % (mid, body))
        arms.append("        %sif m == %d { m%d(asm, a) }" % ("" if mid == 0 else "else ", mid, mid))
    call = "    fn call(asm: AssemblerArm64, m: Int64, a: Array[Int64]): (Int64, Int64) {\n%s\n        else { assert(false); (-1, -1) }\n    }\n" % "\n".join(arms)
    return DORA_PRELUDE + "\n".join(fns) + call + "}\n", ids


def dora_build(ctx, methods):
    """scratch copy of pkgs/boots + generated module, compiled by the toolchain built from the working tree"""
    # only the driver and the baseline ("cannon") compiler are needed: no dependency on the boots bootstrap
    bindir = build.ensure_toolchain("rel", need_boots=False)
    dora = os.path.join(bindir, "dora")
    src = os.path.join(core.REPO, "pkgs", "boots")
    d = core.scratch("c08-dora")
    dst = os.path.join(d, "boots")
    shutil.copytree(src, dst)
    removed = 0
    for root, _, files in os.walk(dst):
        for fn in files:
            if fn.endswith(".dora"):
                p = os.path.join(root, fn)
                text = open(p).read()
                new, n = re.subn(r"(?m)^[ \t]*@Test[ \t]*\n", "", text)
                if n:
                    removed += n
                    with open(p, "w") as f:
                        f.write(new)
    module, ids = dora_module(methods)
    with open(os.path.join(dst, "assembler", "arm64.dora"), "a") as f:
        f.write("\n" + module)
    out = os.path.join(d, "c08_dora_tests")
    env = dict(os.environ)
    env.pop("DORA_FLAGS", None)
    t0 = time.time()
    p = subprocess.run([dora, "compile", "--cannon", "--internal-compile-boots", "--test", os.path.join(dst, "boots.dora"), "-o", out],
                       capture_output=True, text=True, env=env, timeout=900, cwd=d)
    ctx.count("dora_compile_seconds", round(time.time() - t0, 1))
    ctx.count("dora_other_tests_disabled", removed)
    if p.returncode != 0 or not os.path.exists(out):
        msg = (p.stdout + p.stderr)
        msg = "\n".join(l for l in msg.split("\n") if "ld:" not in l)[-1500:]
        return None, ids, msg
    return out, ids, ""


def run_dora_requests(ctx, exe, ids, reqs, singles):
    from concurrent.futures import ThreadPoolExecutor
    enum_code = {"SH": A.SHIFTS, "EXT": A.EXTENDS, "C": A.CONDS}
    env = dict(os.environ)
    env["DORA_FLAGS"] = "--gc-worker=1"

    def argv_of(r):
        vals = []
        for k, v in zip(r.meth.kinds, r.ops):
            if k in enum_code:
                vals.append(enum_code[k].index(v))
            elif k == "B":
                vals.append(int(v))
            else:
                v = int(v)
                if v >= 1 << 63:
                    v -= 1 << 64
                vals.append(v)
        return [str(r.idx), str(ids[r.name]), str(len(vals))] + [str(v) for v in vals]

    byidx = {r.idx: r for r in reqs}
    refused_cls = {}
    state = {"refusals": 0}
    budget = int(ctx.opts.get("dora_refusals", ctx.pick(200, 1200)))
    per_class = int(ctx.opts.get("dora_refusals_per_class", ctx.pick(1, 2)))

    def cls(r):
        # coarse class for the refusal bookkeeping: the alignment part of the integer classes is dropped
        return (r.name, re.sub(r"z\d", "", A.shape(r.meth.kinds, r.ops)))

    def worker(chunk):
        procs = 0
        crashes = []
        while True:
            # a refusal costs a process: once a (method, operand-shape class) has been refused `per_class` times the
            # remaining requests of that class are not run
            batch = []
            for r in chunk:
                if r.status is not None:
                    continue
                if r.pred is False and state["refusals"] >= budget:
                    r.status = "notrun"
                    continue
                if refused_cls.get(cls(r), 0) >= per_class:
                    r.status = "notrun"
                    continue
                batch.append(r)
            if not batch:
                break
            args = []
            for r in batch:
                args += argv_of(r)
            try:
                p = subprocess.run([exe] + args, capture_output=True, text=True, errors="replace", env=env, timeout=600)
                rc, out, err = p.returncode, p.stdout, p.stderr
            except subprocess.TimeoutExpired as e:
                rc, out, err = "timeout", (e.stdout or b"").decode(errors="replace") if isinstance(e.stdout, bytes) else (e.stdout or ""), ""
            procs += 1
            done = 0
            for line in out.split("\n"):
                m = re.search(r"\b([RS]) (\d+)((?: \d+)*)\s*$", line)
                if not m:
                    continue
                r = byidx[int(m.group(2))]
                if m.group(1) == "S":
                    r.status = "skip"
                    r.msg = "label-inside-emitted-code"
                else:
                    r.status = "ok"
                    r.words = tuple(int(w) for w in m.group(3).split())
                done += 1
            if done < len(batch):
                r = batch[done]
                first = [l.strip() for l in err.split("\n") if l.strip()]
                if rc == "timeout":
                    r.status = "timeout"
                elif isinstance(rc, int) and rc < 0:
                    r.status = "crash"
                    r.loc = "signal %d" % -rc
                    r.msg = (first[0] if first else "")[:200]
                    crashes.append(r)
                else:
                    r.status = "refused"
                    r.loc = "exit %s" % rc
                    r.msg = (first[0] if first else "")[:120]
                    refused_cls[cls(r)] = refused_cls.get(cls(r), 0) + 1
                    if r.pred is False:
                        state["refusals"] += 1
        return procs

    n = max(1, core.NCPU)
    size = 400
    chunks = [reqs[k:k + size] for k in range(0, len(reqs), size)]
    # requests expected to be refused end their process: small chunks so that they spread over the workers
    chunks += [singles[k:k + 6] for k in range(0, len(singles), 6)]
    for r in singles:
        byidx[r.idx] = r
    with ThreadPoolExecutor(max_workers=n) as ex:
        procs = sum(ex.map(worker, chunks))
    ctx.count("dora_processes", procs)


def run_dora(ctx, work):
    src = os.path.join(core.REPO, "pkgs", "boots", "assembler", "arm64.dora")
    ds = A.parse_dora(src)
    methods = {n: m for n, m in ds["methods"].items() if n not in A.DORA_NON_INSTRUCTION}
    for name in ds["other"]:
        if name not in A.DORA_NON_INSTRUCTION:
            ctx.violation("c08:uncovered-method:dora.%s" % name,
                          "public function `%s` of arm64.dora has an unexpected shape (static or with result)" % name)
    for name in ds["free"]:
        if name not in A.DORA_FREE_IGNORED:
            ctx.violation("c08:uncovered-method:dora.%s" % name, "free public function `%s` of arm64.dora is not covered" % name)
    # covering sample in both tiers: single-operand register sweeps + boundary sweeps (the exhaustive pair sweeps are
    # run against the Rust assembler only)
    reqs, uncovered = build_requests(ctx, "dora", methods, "dora-requests", tier="quick",
                                     scale=float(ctx.opts.get("dora_scale", ctx.pick("0.5", "2"))))
    for name, why in uncovered:
        ctx.violation("c08:uncovered-method:dora.%s" % name,
                      "public method `%s` of pkgs/boots/assembler/arm64.dora is not covered by the C08 tables: %s" % (name, why))
        methods.pop(name, None)
    ctx.count("dora_methods_present", len(methods) + len(uncovered))
    ctx.count("dora_methods_with_template", len(methods))
    # backward label distances are real code in the Dora buffer: keep them moderate
    reqs = [r for r in reqs if not any(k == "L" and v < -(1 << 20) for k, v in zip(r.meth.kinds, r.ops))]
    for i, r in enumerate(reqs):
        r.idx = i
    exe, ids, err = dora_build(ctx, methods)
    if exe is None:
        ctx.inconc("the generated Dora test module did not compile: %s" % err)
        return
    prep = prepare(ctx, reqs, work)
    # a refusal costs one process: all requests LLVM accepts are run, of the unencodable ones a sample that
    # covers every (method, operand-shape class) first
    rust_out = getattr(ctx, "c08_rust_outcomes", {})

    def likely_refused(r):
        if not r.pred:
            return True
        o = rust_out.get((r.name, A.shape(r.meth.kinds, r.ops)))
        return o is not None and o[0] == o[1]      # the Rust assembler refused every request of this class

    legal = [r for r in reqs if not likely_refused(r)]
    illegal = [r for r in reqs if likely_refused(r)]
    rng = ctx.rng("dora-illegal-sample")
    rng.shuffle(illegal)
    # order: round-robin over the methods, a new operand-shape class each round; the driver stops running them when
    # its budget of actual refusals is used up (an accepted request costs nothing)
    per_method = {}
    seen = set()
    rest = []
    for r in illegal:
        k = (r.name, A.shape(r.meth.kinds, r.ops))
        if k in seen:
            rest.append(r)
        else:
            seen.add(k)
            per_method.setdefault(r.name, []).append(r)
    chosen = []
    rnd = 0
    while True:
        row = [v[rnd] for v in per_method.values() if len(v) > rnd]
        if not row:
            break
        chosen += row
        rnd += 1
    chosen += rest
    for r in chosen:
        r.pred = False       # scheduling class: refusal expected
    ctx.count("dora_refusal_expected_generated", len(illegal))
    t0 = time.time()
    run_dora_requests(ctx, exe, ids, legal, chosen)
    ctx.count("dora_run_seconds", round(time.time() - t0, 1))
    reqs = legal + chosen
    for r in reqs:
        if r.status == "crash":
            ctx.violation("c08:dora.%s:crash-%s" % (r.name, r.loc.replace(" ", "-")),
                          "the Dora test binary died with %s on %s: %s" % (r.loc, _req_text(r), r.msg))
            r.status = None
        elif r.status == "timeout":
            ctx.inconc("Dora request timed out: %s" % _req_text(r))
            r.status = None
    covered = judge(ctx, "dora", reqs, work, prep)
    ctx.count("dora_methods_exercised", len(covered))
    for r in reqs[:: max(1, len(reqs) // 3)][:3]:
        ctx.sample({"assembler": "dora", "request": _req_text(r), "status": r.status,
                    "emitted": ["%08x" % w for w in r.words],
                    "requested": (r.entry.render(r.ops) if r.entry.sym is None else "symbolic:" + r.entry.sym)}, limit=10)


def run(ctx):
    if A.LLVM_MC is None:
        ctx.inconc("llvm-mc is not installed: no reference encoder")
        ctx.min_evaluations = 10**18
        return
    ctx.rule = (
        "request = (assembler, method, operands). For every public instruction method: each register operand sweeps all "
        "33 register values (x0..x30, zero register, stack pointer; quick: one operand at a time + random pairs, thorough: "
        "all pairs of operands exhaustively) with the other operands random; each non-register operand sweeps its boundary "
        "domain (shift kinds x amounts 0..65, extends x 0..8, immediates/offsets at and around the architectural limits, "
        "misaligned, all 16 condition names, bit positions, label distances around +-2^13/2^18/2^25 instructions) with "
        "random registers. distinct = distinct (assembler, method, operand-shape class) where the shape class is the "
        "register class per operand (general/zero/sp), enum names, and sign/bit-length/alignment class of each integer; "
        "every request is non-trivial (it reaches the assembler and is either answered or refused). "
        "Immediate predicates: all 64/32-bit patterns of <= 3 runs, every encodable logical immediate and its 64 single-bit "
        "neighbours, plus random values.")
    ctx.assumptions = [
        "LLVM 14 llvm-mc (-mattr=+lse,+neon,+fp-armv8) is the reference encoder/decoder; its accept/reject decision defines "
        "which operands are architecturally encodable",
        "the requested instruction of a method is given by the template table vlib/asmspec/arm64.py (method name, "
        "parameter names and the assemblers' own unit tests fix the unit of each immediate)",
        "LLVM's assembler rejects constrained-unpredictable register combinations (ldp Rt==Rt2, writeback base == Rt, "
        "stxr status == source); those requests are compared through LLVM's disassembly text instead",
        "label distances beyond 4096 instructions are produced by moving the assembler position, not by emitting code",
        "the Dora assembler is driven with a covering sample (single-operand register sweeps + boundary sweeps; a request "
        "that is refused ends the test process, so refusals are sampled: at most a budget of expected refusals, and per "
        "(method, operand-shape class) only until the first/second refusal); its free predicate functions (fits_movz, ...) "
        "are not compared",
    ]
    build.ensure_harness(["vh-asm-arm64"])
    work = core.scratch("c08-work")
    parts = ctx.opts.get("parts", "rust,imm,dora").split(",")
    # ---- Rust assembler
    methods, uncovered, present = rust_surface(ctx)
    reqs, unc2 = build_requests(ctx, "rust", methods, "rust-requests")
    uncovered += unc2
    for name, why in uncovered:
        ctx.violation("c08:uncovered-method:%s" % name,
                      "public function `%s` of dora-asm/src/arm64.rs is not covered by the C08 tables: %s" % (name, why))
    ctx.count("rust_methods_present", present)
    ctx.count("rust_methods_with_template", present - len(uncovered))
    if "rust" in parts:
        t0 = time.time()
        run_rust(ctx, reqs, work)
        ctx.count("rust_harness_seconds", round(time.time() - t0, 1))
        covered = judge(ctx, "rust", reqs, work, prepare(ctx, reqs, work))
        out = {}
        for r in reqs:
            if r.status in ("ok", "refused"):
                o = out.setdefault((r.name, A.shape(r.meth.kinds, r.ops)), [0, 0])
                o[0] += r.status == "refused"
                o[1] += 1
        ctx.c08_rust_outcomes = out
        ctx.count("rust_methods_exercised", len(covered))
        for r in reqs[:: max(1, len(reqs) // 5)][:5]:
            ctx.sample({"assembler": "rust", "request": _req_text(r), "status": r.status,
                        "emitted": ["%08x" % w for w in r.words],
                        "requested": (r.entry.render(r.ops) if r.entry.sym is None else "symbolic:" + r.entry.sym)}, limit=10)
    if "imm" in parts and not ctx.opts.get("only"):
        t0 = time.time()
        check_imm(ctx)
        ctx.count("imm_seconds", round(time.time() - t0, 1))
    if "dora" in parts:
        run_dora(ctx, work)
    ctx.required_counters = [c for c in ("rust_words_equal_reference", "rust_refused_illegal") if "rust" in parts]
    shutil.rmtree(work, ignore_errors=True)
