"""C09, program level: generated multi-threaded Dora programs whose stdout is fixed regardless of the schedule.

Workload (vlib/threadgen.py): ten scenario families -- counter under Mutex.lock with a shadow owner cell; bounded queue (one Mutex,
two Conditions, unique items, set comparison + per-producer FIFO); barrier; token ring / ping-pong; join trees (plain writes read
after join()); atomic tickets (fetch_add), CAS counter + versioned lock-free stack (compare_exchange), exchange spin lock;
notification without waiter; collections while threads are queued on young (moving) Mutex / Condition objects. A case is an argv
vector; every case exists in three sizes (stress / small / large) and the configuration picks the size.

Matrix: code generator {cannon, boots} x collector {copy, sweep, swiper} x DORA_FLAGS {default, --gc-stress, --gc-stress-minor,
--gc-worker=2, --disable-tlab, small heap + 1M young generation} x CPU affinity {1 core, 2 cores, all} x perturbation
(DORA_VERIF_PERTURB=<seed>:<permille>, one level per repetition); a seeded covering sample per case. DORA_VERIF_DEADLOCK=5000 is
always set: the all-blocked detector's exit 94 is a definite lost wake-up / deadlock verdict, a plain watchdog timeout is
inconclusive. Oracle: stdout == expected text, exit 0, no trap (a failed `assert` of the program = trap 102), no signal, no runtime
panic, no monitor exit. Keys: c09:prog:<scenario>:<outcome class>[:<backend> for traps, wrong output and exit statuses].
"""
import json
import os
import re
import time

from .. import build, execu, progrun, threadgen
from ..core import NCPU, scratch

GCS = ("copy", "sweep", "swiper")
# level name -> (DORA_FLAGS, size class it forces or None)
FLAGS = {
    "default": ("", None),
    "stress": ("--gc-stress --gc-worker=1 --max-heap-size=32M", "stress"),
    "stress-minor": ("--gc-stress-minor --gc-worker=1 --max-heap-size=32M", "stress"),
    "worker2": ("--gc-worker=2", None),
    "notlab": ("--disable-tlab --max-heap-size=64M", "small"),
    "smallheap": ("--max-heap-size=32M --gc-young-size=1M --gc-worker=2", None),     # up to 2 worker threads; grows with the thread count, see _flags
}
AFFINITY = ("one", "two", "all")
HOOKS = ("WAITLIST_ENQUEUE", "WAITLIST_WAKEUP", "WAITLIST_WAKEUP_EMPTY", "WAITLIST_WAKEUP_ALL", "BLOCK_CALLS", "JOIN_CALLS", "JOIN_WAITED", "PARK_SLOW",
         "UNPARK_SLOW_WAITS", "SAFEPOINT_SLOW", "GC_PERFORMED", "WAITLIST_CHECKS", "THREADS_SPAWNED", "STW_OPS_MULTI", "DEADLOCK_SCANS")


def _flags(level, case):
    """DORA_FLAGS of a level for a case. The small-heap level scales the young generation with the number of program threads,
    because the unchanged runtime reports a spurious `out of memory` when many threads allocate into a small young generation
    (a thread that loses the race for the memory freed by a collection four times in a row gives up, and collections requested
    concurrently are coalesced; live set: a few kilobytes). That defect is not a C09 matter (see
    proposed_fixes/c09-known-findings.json); such traps are reported under the single key c09:prog:trap-OOM:<gc>."""
    if level != "smallheap":
        return FLAGS[level][0]
    t = 1 + max(threadgen.threads_of(s, p) for s, p in case.invocations)
    if t <= 3:
        return FLAGS[level][0]
    if t <= 7:
        return "--max-heap-size=64M --gc-young-size=8M --gc-worker=2"
    return "--max-heap-size=128M --gc-young-size=16M --gc-worker=2"


def _affinity(level, r, cpus):
    if level == "all" or len(cpus) < 2:
        return None
    if level == "one":
        return {r.choice(cpus)}
    return set(r.sample(cpus, 2))


def _assert_site(stderr_text, src_path, src_lines):
    """First stack frame inside the generated program: (line number, source line)."""
    for m in re.finditer(r"\(([^():]+\.dora):(\d+):(\d+)\)", stderr_text):
        if os.path.basename(m.group(1)) == os.path.basename(src_path):
            ln = int(m.group(2))
            if 1 <= ln <= len(src_lines):
                return ln, src_lines[ln - 1].strip()
    return None, ""


def run(ctx):
    build.ensure_toolchain("rel")
    d = scratch("c09p")
    statd = os.path.join(d, "stats")
    os.makedirs(statd, exist_ok=True)
    ctx.rule = (ctx.rule + "; " if ctx.rule else "") + (
        "program level: one execution = (generated program, case = scenario invocations with parameters, code generator, collector, "
        "DORA_FLAGS level, affinity, perturbation seed); distinct = distinct such tuple that ran to a verdict; non-trivial = its stdout was "
        "compared with the text computed from the parameters")
    ctx.assumptions = list(ctx.assumptions) + [
        "program level: the covering sample of the configuration matrix is seeded, not the full product; a watchdog timeout without the "
        "all-blocked detector's verdict is inconclusive",
        "program level: the generated programs rely on x86-64 ordering for plain slots published through a lock-prefixed instruction"]
    # ---- programs -----------------------------------------------------------------------------------------------------
    nprog = ctx.pick(2, 5)
    knobs = [threadgen.Knobs.random(ctx.rng("knobs", i)) for i in range(nprog)]
    sources = [("tp%d" % i, threadgen.source(k)) for i, k in enumerate(knobs)]
    t0 = time.time()
    built, bdir = progrun.compile_all("c09p/build", sources, backends=progrun.BACKENDS, gcs=GCS, timeout=900)
    ctx.extra["prog_compile_wall_s"] = round(time.time() - t0, 1)
    src_of = dict(sources)
    for name, b in built.items():
        for key, r in b.errors.items():
            if r.timeout:
                ctx.inconc("program level: compile watchdog %s %s" % (name, key))
            else:
                text = progrun.compile_error_text(r)
                sig = progrun.crash_signature(text) or next((l for l in text.splitlines() if l.startswith("error")), "")[:80]
                ctx.violation("c09:prog:compile-failed:%s:%s:%s" % (key[0], key[1], sig), "compile failed for %s %s:\n%s" % (name, key, text[-1500:]),
                              files={"program.dora": src_of[name]})
    # ---- cases and configurations ---------------------------------------------------------------------------------------
    opts = getattr(ctx, "opts", {})
    per_scen = int(opts.get("per_scen", ctx.pick(3, 20)))
    ncfg = int(opts.get("ncfg", ctx.pick(12, 24)))
    perturb = ctx.pick([0, 60, 400], [0, 30, 100, 300, 700])
    want = opts.get("scenario")     # --opt scenario=<name>: exploration of one family (no coverage requirements)
    cpus = sorted(os.sched_getaffinity(0))
    # (swiper, --gc-stress, one core) is left out: a full swiper collection takes > 10 s on one shared, loaded core (measured 17 s
    # for a 16M heap with 464 live bytes, 0.4 s on all cores), so those runs only produce watchdog timeouts = inconclusive
    combos = [(be, gc, fl, af) for be in progrun.BACKENDS for gc in GCS for fl in FLAGS for af in AFFINITY
              if not (gc == "swiper" and fl == "stress" and af == "one")]
    jobs = []
    inst = 0
    for si, name in enumerate(threadgen.SCEN_ID):
        if want and name != want:
            continue
        for k in range(per_scen):
            pi = (si + k) % nprog
            r = ctx.rng("case", si * 1000 + k)
            mix = k % 3 == 2     # every third instance of a scenario is followed by one or two other scenarios in the same process
            cases = {}
            for size in ("stress", "small", "large"):
                rc = ctx.rng("case-%s" % size, si * 1000 + k)
                c = threadgen.gen_case(rc, size, name)
                if mix:
                    for _ in range(rc.choice([1, 2])):
                        c.invocations.append(threadgen.gen_invocation(rc, rc.choice(list(threadgen.SCEN_ID)), size))
                cases[size] = c
            cc = list(combos)
            r.shuffle(cc)
            for j, (be, gc, fl, af) in enumerate(cc[:ncfg]):
                size = FLAGS[fl][1] or ("small" if af == "one" else "large")
                if fl == "notlab" and af == "one":
                    size = "stress"       # a collection per TLAB-less allocation burst on one shared core: keep it tiny
                for rep in range(len(perturb)):
                    # the perturbation level rotates, so that every round of the job order (see below) holds all levels
                    permille = perturb[(rep + j + inst) % len(perturb)]
                    rj = ctx.rng("run", (inst * 64 + j) * 8 + rep)
                    jobs.append({"order": (rep, j, inst), "prog": "tp%d" % pi, "scenario": name, "case": cases[size], "size": size, "be": be, "gc": gc,
                                 "fl": fl, "flags": _flags(fl, cases[size]), "af": af, "aff": _affinity(af, rj, cpus), "perturb": "%d:%d" % (rj.randrange(1, 1 << 20), permille) if permille else None,
                                 "permille": permille, "id": len(jobs)})
            inst += 1
    jobs.sort(key=lambda j: j["order"])
    budget = float(opts.get("budget", ctx.pick(330, 1500)))
    deadline = time.time() + budget
    timeout = ctx.pick(150, 300)

    def one(j):
        exe = built[j["prog"]].exes.get((j["be"], j["gc"])) if j["prog"] in built else None
        if exe is None:
            return j, None, None
        if time.time() > deadline:
            return j, "skipped", None
        sf = os.path.join(statd, "%d.json" % j["id"])
        env = {"DORA_FLAGS": j["flags"], "DORA_VERIF_DEADLOCK": "5000", "DORA_VERIF_STATS": sf}
        if j["perturb"]:
            env["DORA_VERIF_PERTURB"] = j["perturb"]
        # runs started shortly before the time budget ends get a shorter watchdog, so that stragglers cannot double the wall time
        tmo = max(30, min(timeout, deadline + 60 - time.time()))
        o = execu.run_cmd([exe] + [str(a) for a in j["case"].argv()], timeout=tmo, env=env, affinity=j["aff"])
        st = None
        try:
            with open(sf) as f:
                st = json.loads(f.readline())
            os.unlink(sf)
        except (OSError, ValueError):
            pass
        return j, o, st

    t0 = time.time()
    results = execu.pmap(one, jobs, workers=max(4, NCPU))
    ctx.extra["prog_run_wall_s"] = round(time.time() - t0, 1)
    # ---- judge ------------------------------------------------------------------------------------------------------------
    hook = {}
    maxchain = 0
    src_lines = {n: s.splitlines() for n, s in sources}
    for j, o, st in results:
        if o is None:
            continue
        if o == "skipped":
            ctx.count("prog_skipped_time_budget")
            continue
        c = j["case"]
        cfg = "%s --gc %s DORA_FLAGS='%s' affinity=%s perturb=%s" % (j["be"], j["gc"], j["flags"], sorted(j["aff"]) if j["aff"] else "all", j["perturb"])
        ctx.count("prog_runs")
        if o.cls == "timeout":
            ctx.inconc("program level: run watchdog (%.0fs, no deadlock verdict): %s under %s" % (o.wall, c.describe(), cfg))
            ctx.count("prog_timeouts")
            continue
        if o.cls == "harness_error":
            ctx.inconc("program level: could not start %s" % cfg)
            continue
        ctx.observe((j["prog"], tuple(c.argv()), j["be"], j["gc"], j["fl"], j["af"], j["perturb"]))
        for what, v in (("scenario", j["scenario"]), ("backend", j["be"]), ("gc", j["gc"]), ("flags", j["fl"]), ("affinity", j["af"]),
                        ("perturb", j["permille"]), ("size", j["size"])):
            ctx.count("prog_%s:%s" % (what, v))
        if st:
            for h in HOOKS:
                hook[h] = hook.get(h, 0) + int(st.get(h, 0))
            ch = int(st.get("WAITLIST_MAX_CHAIN", 0))
            maxchain = max(maxchain, ch)
            if ch > 0:
                ctx.count("prog_runs_collection_while_queued")
            if st.get("WAITLIST_ENQUEUE", 0) > 0:
                ctx.count("prog_runs_with_blocked_threads")
        else:
            ctx.count("prog_runs_without_stats")
        exp = c.expected()
        got = o.stdout.decode("utf-8", "replace")
        err = o.stderr.decode("utf-8", "replace")
        files = {"program.dora": src_of[j["prog"]], "stderr.txt": err[-6000:], "expected_stdout.txt": exp, "stdout.txt": got[-6000:],
                 "cmd.txt": "# %s (%s)\nDORA_FLAGS='%s' DORA_VERIF_DEADLOCK=5000%s %s<exe: dora compile %s--gc %s program.dora> %s\n" % (
                     c.describe(), threadgen.Knobs.describe(knobs[int(j["prog"][2:])]), j["flags"],
                     " DORA_VERIF_PERTURB=" + j["perturb"] if j["perturb"] else "", "taskset -c %s " % ",".join(map(str, sorted(j["aff"]))) if j["aff"] else "",
                     "--cannon " if j["be"] == "cannon" else "", j["gc"], " ".join(str(a) for a in c.argv()))}
        # the scenario a failure belongs to = the invocation that was running or printed the first wrong line (one line each)
        exp_lines, got_lines = exp.splitlines(True), got.splitlines(True)
        k = 0
        while k < len(exp_lines) and k < len(got_lines) and exp_lines[k] == got_lines[k]:
            k += 1
        scen = threadgen.SCENARIOS[c.invocations[min(k, len(c.invocations) - 1)][0]]
        # key space: scenario x outcome class; the code generator is part of the key only where generated code can be the culprit
        suffix = ":" + j["be"]
        if o.cls == "ok" and o.status == 0 and got == exp:
            ctx.count("prog_runs_ok")
            if ctx.counters["prog_runs_ok"] % 97 == 1:
                ctx.sample({"case": c.describe(), "config": cfg, "stdout": got[:200], "hooks": {h: st.get(h) for h in HOOKS[:8]} if st else None}, limit=8)
            continue
        if o.cls == "verif_monitor":
            line = next((l for l in err.splitlines() if "VERIF-MONITOR" in l), "")
            ctx.violation("c09:prog:%s:monitor-%s" % (scen, execu.MONITOR_EXITS.get(o.status, o.status)),
                          "%s under %s: %s\n(exit %d is a logical verdict of the runtime monitor, not a timeout)\nstdout so far: %r" % (c.describe(), cfg, line, o.status, got[-300:]),
                          files=files)
        elif o.cls == "trap" and execu.TRAPS.get(o.status) == "OOM":
            # not a synchronisation verdict and independent of the scenario: one key per collector
            ctx.violation("c09:prog:trap-OOM:%s" % j["gc"], "%s under %s ended in `out of memory` although its live set is small\nstderr: %s" % (c.describe(), cfg, err[-900:]),
                          files=files)
        elif o.cls == "trap":
            ln, text = _assert_site(err, j["prog"] + ".dora", src_lines[j["prog"]])
            ctx.violation("c09:prog:%s:trap-%s%s" % (scen, execu.TRAPS.get(o.status, o.status), suffix),
                          "%s under %s ended in trap %s at program line %s: `%s`\nstderr: %s" % (c.describe(), cfg, execu.TRAPS.get(o.status), ln, text, err[-900:]), files=files)
        elif o.cls in ("signal", "rust_panic", "fatal"):
            sig = progrun.crash_signature(err) or ""
            ctx.violation("c09:prog:%s:%s%s" % (scen, o.key(), (":" + sig) if o.cls == "rust_panic" and sig else ""),
                          "%s under %s ended %s\nstderr: %s" % (c.describe(), cfg, o.key(), err[-1200:]), files=files)
        elif o.cls == "ok" and o.status != 0:
            ctx.violation("c09:prog:%s:exit-%d%s" % (scen, o.status, suffix), "%s under %s exited with status %d\nstderr: %s" % (c.describe(), cfg, o.status, err[-900:]),
                          files=files)
        else:
            ctx.violation("c09:prog:%s:output%s" % (scen, suffix), "%s under %s printed %r, expected %r" % (c.describe(), cfg, got[-400:], exp[-400:]), files=files)
    if ctx.counters.get("prog_skipped_time_budget"):
        ctx.inconc("program level: %d of %d planned runs were not started because the time budget of %.0f s was used up (machine load)" % (
            ctx.counters["prog_skipped_time_budget"], len(jobs), budget))
    ctx.extra["prog_planned_runs"] = len(jobs)
    for h in HOOKS:
        ctx.counters["prog_hook_" + h] = hook.get(h, 0)
    ctx.counters["prog_hook_WAITLIST_MAX_CHAIN"] = maxchain
    ctx.extra["prog_programs"] = {n: k.describe() for (n, _), k in zip(sources, knobs)}
    for name, bb in built.items():          # ~8 MB per executable: do not leave them around (the sources stay, replay dirs hold the witnesses)
        for exe in bb.exes.values():
            try:
                os.unlink(exe)
            except OSError:
                pass
    if not want:
        ctx.required_counters = list(ctx.required_counters) + [
            "prog_runs_ok", "prog_hook_WAITLIST_ENQUEUE", "prog_hook_WAITLIST_WAKEUP", "prog_hook_WAITLIST_WAKEUP_ALL", "prog_hook_BLOCK_CALLS",
            "prog_hook_JOIN_WAITED", "prog_hook_GC_PERFORMED", "prog_hook_WAITLIST_CHECKS", "prog_runs_collection_while_queued",
            "prog_backend:cannon", "prog_backend:boots", "prog_gc:copy", "prog_gc:sweep", "prog_gc:swiper", "prog_flags:stress", "prog_flags:default",
            "prog_affinity:one", "prog_affinity:all"]
