"""C16 -- the syntax tree loses nothing of the text (DESIGN.md 5 C16).

Oracle (harness/vh-text `parse`): tree text == input; node length == sum of children; token texts match the
input at their offsets; red spans contiguous; error spans inside the text on char boundaries; lexer tokens
tile the text; error-free input re-parses to the same shape; line/column vs. naive scan.
Inputs: families (a)-(e) of DESIGN.md 2.4 generated in-process from the repository corpus.
"""
from .. import build, inproc


def run(ctx):
    build.ensure_harness(["vh-text"])
    count = ctx.pick(48000, 1500000)
    ctx.rule = ("case = (family, text) generated from seed; families: corpus file as is, CR/CRLF/BOM variants, token soup, "
                "random UTF-8, token delete/dup/swap/replace/insert, chunk delete, truncate, splice, delimiter flip, "
                "nesting <= 200, mixed line endings, multi-byte insertion; distinct = distinct input text hash; "
                "non-trivial = input reached the parser and produced a tree (all do)")
    ctx.assumptions = ["inputs bounded by 64 KiB (corpus files excepted) and nesting depth 200",
                       "tree access through the public dora-parser API only"]
    r = inproc.run_sharded("vh-text", "parse", ctx.seed, count, "c16", timeout=ctx.pick(2400, 4800))
    report(ctx, r, "c16", "parser")


def report(ctx, r, prefix, what):
    for o in r.ok:
        ctx.observe(o.get("h"))
    ctx.counters.update({k: v for k, v in r.stats.items() if isinstance(v, (int, float))})
    fams = {}
    for o in r.ok:
        fams[o.get("fam")] = fams.get(o.get("fam"), 0) + 1
    for o in r.bad:
        # panics are also counted as evaluated inputs
        if o["key"].startswith("panic@"):
            ctx.observe("p%d" % o["idx"])
        ctx.violation(o["key"], "%s [family %s, case %d]" % (o["what"], o.get("family"), o["idx"]),
                      files={"input.dora": o.get("input", "")},
                      cmd="harness case idx=%d seed=%d" % (o["idx"], ctx.seed))
    for d in r.deaths:
        key = "%s:child-death:rc=%s" % (prefix, d["rc"])
        ctx.violation(key, "%s harness child died (rc=%s) on case %s: %s" % (what, d["rc"], d["idx"], d["log"][-400:]),
                      files={"input.dora": d["input"]})
    for s in r.timeouts:
        ctx.inconc("shard %d hit the wall-clock watchdog" % s)
    seen = set()
    for o in r.ok:
        if o.get("snip") and o.get("fam") not in seen and len(seen) < 8:
            seen.add(o.get("fam"))
            ctx.sample({"case_index": o.get("idx"), "family": o.get("fam"), "input_first_160_chars": o.get("snip")}, limit=8)
    ctx.extra["cases_per_family"] = fams
