"""C06 -- the front end never crashes, whatever text it is given (DESIGN.md 5 C06).

In-process (harness/vh-front): for every generated text the real pipeline of `dora compile` is run --
Sema::new(text) -> check_program (lex, parse, all semantic phases; error tolerant) -> rendering of every
diagnostic (the text the CLI prints) -> emit_program when check_program returned true.
Oracle:
  * no panic in any stage (key panic@<file>:<line>:<message class>); aborts / stack overflows kill the child and
    are attributed to the input by vlib/inproc.py, then confirmed by re-running that input alone
    (c06:child-death:rc=<n>; an unconfirmed death is inconclusive);
  * termination: a watchdog inside the child ends it (exit status 97) when one input has used more CPU time than
    200 x the median cost of the pipeline on a trivial program (>= 10 s; the cost is dominated by the standard
    library, which is re-parsed for every input, so one size class suffices for inputs <= 64 KiB); such an input
    is re-run alone with 10 x that bound, and only a second overrun is a violation (c06:nontermination:<stage>,
    stage = parse | check_program | diagnostics | render | emit_program: the stage that did not end),
    otherwise the input is reported inconclusive-slow. A child that dies of an allocation failure at its 3 GiB
    address-space bound (parser loops allocate on every iteration) and does so again when the input is run alone
    is reported under the same key. Wall-clock time is never a verdict;
  * every located diagnostic (errors and warnings, in any file) has 0 <= start <= end <= len(file) with both ends
    on character boundaries (c06:span-outside-file:<kind>, c06:span-not-on-char-boundary:<kind>);
  * check_program's result agrees with the diagnostics list; check_program true => emit_program completes.
CLI: ~2 % of the inputs are also given to the real `dora compile -c main.dora -o out.pkg`; required: status 0 and
a package file, or status 1 with `error:` messages on stderr, no package file, no `panicked at`, no signal
(c06:cli:<class>; a CLI panic is reported under the same panic@ key as in-process).

Families (DESIGN.md 2.4; generators in harness/vhc/src/textgen.rs and harness/vh-front/src/fams.rs):
  default  corpus (every repository .dora file as it is, dense walk starting at a seed-dependent file), corpus-crlf
           (CR / CRLF / BOM variants), line-endings (mixed), multibyte (multi-byte / astral characters inserted into
           identifiers, strings, comments), soup (token soup), utf8-random, truncate (token or byte boundary), nest
           (delimiters / blocks / lambdas / unary minus nested up to 200 deep, 25 % unbalanced);
  mutants  tok-delete, tok-dup, tok-swap, tok-replace, tok-insert, chunk-delete, splice, delim-flip, ident-swap, lit-swap,
           op-swap, kw-swap (token-level mutants of repository files);
  wide     gen-prog (grammar-directed random programs), gen-prog-mutant, item-splice (concatenated files).
`--opt families=default|mutants|wide|all|a,b,c`, `--opt count=N`, `--opt bases=all|run` (run: mutating families do not
start from test/sema/**), `--opt cli=0` (in-process part only), `--opt cli_every=K`.

NARROWING (DESIGN.md 4.3).  The check runs the `default` families only.  Measured on the pinned tree (86805cfb4):
  * all 23 families, 100 000 inputs (seed 101): 20 344 inputs (20 %) panic at 57 distinct sites, several seen once;
  * with the 19 proposed repairs (proposed_fixes/c06-01..19, which remove 36 of the pinned tree's keys, all parser sites
    included): all families, 97 632 inputs: 848 panics (0.9 %) at 29 sites; the `mutants` + `default` families, 3 x 6 000
    inputs: 1, 4 and 2 *new* sites per run; that is about one new site per 2 000 - 3 000 inputs with no sign of
    levelling off: the semantic phases (generic traits, associated types, impl matching, default-method
    specialisation) and the bytecode generator still contain many assertions / unreachable!() / expect() that "almost
    valid" programs reach, nearly every panic at a different site.  A key space that does not saturate makes a noisy
    check, so the `mutants` and `wide` families are exploration modes (`--opt families=all`); every VIOLATION they
    print is a genuine front-end defect, but they are not part of the registered command.
  * the `default` families reach a bounded set: the bytecode generator / verifier failures on *accepted* repository
    files that the repository itself only ever type-checks (test/sema `//= ok` files) and their layout variants, plus a
    few checker sites reached by truncation and unbalanced nesting; these are listed in known_findings.json.
The parser alone (C16 runs all 16 textgen families through it) has no panic site left after c06-01..05.
"""
import json
import os
import re
import shutil
import subprocess

from .. import build, execu, inproc
from ..core import scratch

EXIT_SLOW = 97
CLI_EVERY = 50

# Families run by default. See NARROWING below.
DEFAULT_FAMILIES = "default"
# evaluated by the parser alone (second pass of the registered tiers)
PARSER_FAMILIES = "list-start,tok-insert,tok-replace,tok-delete,tok-swap,tok-dup,delim-flip,chunk-delete,splice,kw-swap,op-swap,list-start"


def msg_class(msg):
    """Port of vhc::msg_class."""
    out = []
    in_tick = False
    last_digit = False
    for c in msg[:160]:
        if c in "`\"'":
            in_tick = not in_tick
            out.append(c)
            continue
        if in_tick:
            continue
        if c.isdigit() and c.isascii():
            if not last_digit:
                out.append("N")
            last_digit = True
        else:
            last_digit = False
            out.append(" " if c == "\n" else c)
    return "".join(out)


def valid_utf8(b):
    try:
        b.decode("utf-8")
        return True
    except UnicodeDecodeError:
        return False


def panic_class(msg):
    """Port of vh-front::panic_class."""
    first = msg.split("\n")[0]
    if first.startswith("register type "):
        return "register type does not match expected type"
    if first.startswith("SourceType ") and " cannot be converted" in first:
        return "SourceType cannot be converted to BytecodeType"
    c = msg_class(first)
    for cut in (" in function ", " for function "):
        p = c.find(cut)
        if p >= 12:
            c = c[:p]
    return c


_PANIC = re.compile(r"panicked at ([^\s:]+):(\d+):\d+:\n([^\n]*)")


def harness_alone(ctx, idx, count, fams, extra_kv, tag):
    """Re-run one case alone; returns (rc, stdout tail, bad lines)."""
    d = scratch("c06-alone-%s-%d" % (tag, idx))
    cmd = [build.harness_bin("vh-front"), "front", "--seed", str(ctx.seed), "--count", str(count), "--only", str(idx),
           "--out", d, "families=%s" % fams] + ["%s=%s" % kv for kv in extra_kv.items()]
    env = dict(os.environ)
    env["RUST_BACKTRACE"] = "0"
    try:
        p = subprocess.run(cmd, stdout=subprocess.PIPE, stderr=subprocess.STDOUT, env=env, timeout=3600)
    except subprocess.TimeoutExpired:
        return None, "", []
    bad = []
    try:
        with open(os.path.join(d, "shard_0.jsonl"), errors="replace") as f:
            for line in f:
                try:
                    o = json.loads(line)
                except ValueError:
                    continue
                if o.get("t") == "bad":
                    bad.append(o)
    except OSError:
        pass
    full = p.stdout.decode("utf-8", "replace")
    m = re.search(r"memory allocation of \d+ bytes failed", full)
    try:
        stage = open(os.path.join(d, "cur_0.stage")).read().strip() or "unknown"    # stage the child was in when it ended
    except OSError:
        stage = "unknown"
    shutil.rmtree(d, ignore_errors=True)
    return p.returncode, "[stage %s] " % stage + ((m.group(0) + " ... ") if m else "") + full[-1500:], bad


def run_cli(ctx, clidir, dora):
    dirs = sorted((d for d in os.listdir(clidir) if os.path.exists(os.path.join(clidir, d, "main.dora"))), key=int)

    def one(d):
        cwd = os.path.join(clidir, d)
        o = execu.run_cmd([dora, "compile", "-c", "main.dora", "-o", "out.pkg"], timeout=300, cwd=cwd,
                          env={"RUST_BACKTRACE": "0"})
        return d, o

    for d, o in execu.pmap(one, dirs):
        cwd = os.path.join(clidir, d)
        try:
            text = open(os.path.join(cwd, "main.dora"), "rb").read()
        except OSError:
            continue
        try:
            inp = json.load(open(os.path.join(cwd, "inproc.json")))
        except (OSError, ValueError):
            inp = None     # the child died on this case; the death is reported separately
        ctx.count("cli_runs")
        pkg = os.path.join(cwd, "out.pkg")
        has_pkg = os.path.exists(pkg) and os.path.getsize(pkg) > 0
        err = o.stderr.decode("utf-8", "replace")
        files = {"main.dora": text, "stderr.txt": err}
        cmd = "cd <dir with main.dora>; dora compile -c main.dora -o out.pkg"
        key = None
        if o.cls == "timeout":
            ctx.inconc("CLI run of case %s hit the 300 s wall-clock watchdog" % d)
            continue
        if o.cls == "harness_error":
            ctx.inconc("CLI run of case %s could not be started: %s" % (d, err[:200]))
            continue
        m = _PANIC.search(err)
        if m:
            ctx.count("cli_panics")
            key = "panic@%s:%s:%s" % (m.group(1), m.group(2), panic_class(m.group(3)))
            what = "dora compile ended with a panic instead of messages: %s" % err[:600]
        elif o.sig is not None:
            key = "c06:cli:signal=%d" % o.sig
            what = "dora compile was ended by signal %d: %s" % (o.sig, err[-600:])
        elif o.status == 0:
            ctx.count("cli_accepted")
            if not has_pkg:
                key, what = "c06:cli:exit0-without-package", "dora compile -c returned 0 but wrote no package"
        elif o.status == 1:
            ctx.count("cli_rejected")
            lines = [l for l in err.split("\n") if l.startswith("error: ")]
            if has_pkg:
                key, what = "c06:cli:exit1-with-package", "dora compile -c failed but left a package file"
            elif not lines or "Error: compilation failed" not in err:
                key, what = "c06:cli:exit1-without-messages", "dora compile -c failed without `error:` lines: %r" % err[:400]
            elif not valid_utf8(o.stderr):
                key, what = "c06:cli:unreadable-messages", "stderr of dora compile is not valid UTF-8"
            elif "stack backtrace" in err:
                key, what = "c06:cli:backtrace", "dora compile printed a backtrace: %s" % err[:400]
        else:
            key, what = "c06:cli:exit=%s" % o.status, "dora compile ended with status %s: %s" % (o.status, err[-400:])
        if key:
            ctx.violation(key, "%s [case %s]" % (what, d), files=files, cmd=cmd)
        elif inp is not None and not inp.get("bad") and inp.get("ok") != (o.status == 0):
            # same text, same file name, same pipeline: the two must agree; if they do not the harness does not
            # reproduce the CLI faithfully -> a tool problem, reported as inconclusive, never as a violation
            ctx.inconc("case %s: in-process check_program=%s but CLI status %s" % (d, inp.get("ok"), o.status))
            ctx.count("cli_inprocess_disagreements")
        else:
            ctx.count("cli_agree_with_inprocess")


def replay(ctx):
    """./check C06 --replay <dir>: re-run the stored input through vh-front `file` and the CLI."""
    d = ctx.replay_only
    src = os.path.join(d, "input.dora")
    if not os.path.exists(src):
        src = os.path.join(d, "main.dora")
    p = subprocess.run([build.harness_bin("vh-front"), "file", "path=%s" % src], capture_output=True, text=True,
                       env=dict(os.environ, RUST_BACKTRACE="0"))
    ctx.observe("replay")
    ctx.min_distinct = 1
    if p.returncode == EXIT_SLOW:
        m = re.search(r"stage=([a-z_]+)", p.stdout)
        ctx.violation("c06:nontermination:%s" % (m.group(1) if m else "unknown"), "replayed input exceeded the CPU-time bound: %s" % p.stdout[-300:])
        return
    if p.returncode != 0:
        ctx.violation("c06:child-death:rc=%d" % p.returncode, "replayed input killed the harness: %s" % (p.stdout + p.stderr)[-600:])
        return
    o = json.loads(p.stdout.strip().split("\n")[-1])
    for b in o["bad"]:
        ctx.violation(b["key"], b["what"], files={"input.dora": open(src, errors="replace").read()})
    print("replay: %s" % json.dumps({k: o[k] for k in ("parse_clean", "check_ok", "emitted", "errors", "warnings")}))


def run(ctx):
    build.ensure_harness(["vh-front"])
    if ctx.replay_only:
        return replay(ctx)
    opts = getattr(ctx, "opts", {})
    count = int(opts.get("count", ctx.pick(6000, 150000)))
    fams = opts.get("families", DEFAULT_FAMILIES)
    cli_every = int(opts.get("cli_every", CLI_EVERY))
    with_cli = opts.get("cli", "1") != "0" and cli_every > 0     # --opt cli=0: in-process part only (no toolchain build)
    dora = os.path.join(build.ensure_toolchain("rel", need_boots=False), "dora") if with_cli else None
    extra_known = os.environ.get("VERIF_EXTRA_KNOWN")            # development aid: a proposed known-findings file
    if extra_known:
        with open(extra_known) as f:
            for e in json.load(f)["findings"]:
                if e["property"] == "C06" and e.get("status") == "known":
                    ctx._known.setdefault(e["key"], e["what"])
    ctx.rule = ("case = (family, text) generated from (seed, index); default families: repository file as is (dense walk from a "
                "seed-dependent file), CR/CRLF/BOM variants, mixed line endings, multi-byte insertion, token soup, random UTF-8, "
                "truncation, nesting <= 200 (25 % unbalanced); exploration families (--opt families=all): token "
                "delete/dup/swap/replace/insert, chunk delete, splice, delimiter flip, identifier/literal/operator/keyword "
                "replacement, grammar-directed random programs and their mutants, concatenated files; every case is "
                "evaluated by the full in-process pipeline (check_program, diagnostic rendering, emit_program if accepted); "
                "second pass (parser phase): token-level mutants of repository files (list-element-start insertion of every punctuation "
                "token / keyword, token insert/replace/delete/swap/dup, delimiter flip, chunk delete, splice, keyword/operator swap) "
                "evaluated by the standalone parser only; "
                "distinct = distinct input text hash; non-trivial = the pipeline was entered with that text (all are)")
    ctx.assumptions = ["inputs bounded by 64 KiB (repository files excepted) and nesting depth 200",
                       "the program is one file held in memory (path <scratch>/main.dora); `mod x;` items refer to files that do not exist",
                       "the standard library is the one in the working tree's pkgs/std and is re-parsed for every input",
                       "termination bound: CPU time of one input <= 200 x median cost of a trivial program (>= 10 s), "
                       "re-checked alone with 10 x that bound before it counts as a violation",
                       "harness built with panic=unwind, opt-level 2, no debug assertions (the shipped profile is panic=abort)"]
    ctx.required_counters = ["cases", "parse_clean", "check_ok", "emitted"] + (["cli_runs"] if with_cli else [])
    clidir = scratch("c06-cli")
    bases = opts.get("bases", "all")
    base_kv = {"bases": bases}
    kv = {"families": fams, "bases": bases, "cli_every": cli_every if with_cli else 0, "clidir": clidir}
    if "cpu_limit_ms" in opts:      # development aid: fixed CPU bound instead of 200 x the calibrated cost
        kv["cpu_limit_ms"] = int(opts["cpu_limit_ms"])
    r = inproc.run_sharded("vh-front", "front", ctx.seed, count, "c06", timeout=ctx.pick(1800, 3600), kv=kv)

    # ---- in-process results -------------------------------------------------------------------------------
    panicked_idx = set()
    for o in r.ok:
        ctx.observe(o.get("h"))
        if o.get("p"):
            panicked_idx.add(o["idx"])
    stats = r.stats
    for k, v in stats.items():
        if isinstance(v, (int, float)):
            ctx.counters[k] = ctx.counters.get(k, 0) + v
    diag_kinds, parse_kinds = {}, {}
    for m in stats.get("diag_kinds@list", []):
        for k, v in m.items():
            diag_kinds[k] = diag_kinds.get(k, 0) + v
    for m in stats.get("parse_kinds@list", []):
        for k, v in m.items():
            parse_kinds[k] = parse_kinds.get(k, 0) + v
    fams_seen, clean_by_fam, ok_by_fam = {}, {}, {}
    times = []
    for o in r.ok:
        f = o.get("fam")
        fams_seen[f] = fams_seen.get(f, 0) + 1
        if o.get("clean"):
            clean_by_fam[f] = clean_by_fam.get(f, 0) + 1
        if o.get("ok"):
            ok_by_fam[f] = ok_by_fam.get(f, 0) + 1
        times.append(o.get("ms", 0))
    n = max(1, len(r.ok))
    times.sort()
    ctx.extra["inputs_per_family"] = fams_seen
    ctx.extra["parse_clean_per_family"] = clean_by_fam
    ctx.extra["accepted_per_family"] = ok_by_fam
    ctx.extra["share_reached_typeck_without_parse_errors"] = round(sum(clean_by_fam.values()) / n, 4)
    ctx.extra["share_accepted_and_emitted"] = round(sum(ok_by_fam.values()) / n, 4)
    ctx.extra["distinct_semantic_diagnostic_kinds"] = len(diag_kinds)
    ctx.extra["distinct_parser_error_kinds"] = len(parse_kinds)
    ctx.extra["semantic_diagnostic_kinds"] = dict(sorted(diag_kinds.items(), key=lambda kv: -kv[1]))
    ctx.extra["parser_error_kinds"] = dict(sorted(parse_kinds.items(), key=lambda kv: -kv[1]))
    if times:
        ctx.extra["cpu_ms_per_input"] = {"median": times[len(times) // 2], "p99": times[int(len(times) * 0.99)], "max": times[-1]}
    ctx.counters["distinct_semantic_diagnostic_kinds"] = len(diag_kinds)
    ctx.counters["distinct_parser_error_kinds"] = len(parse_kinds)

    for o in sorted(r.bad, key=lambda o: (len(o.get("input") or "") or 10**9, o["idx"])):   # smallest witness per key
        ctx.violation(o["key"], "%s [family %s, case %d]" % (o["what"], o.get("family"), o["idx"]),
                      files={"input.dora": o.get("input", "")},
                      cmd="./check C06 --replay <this dir>   (case idx=%d seed=%d families=%s count=%d)" % (o["idx"], ctx.seed, fams, count))

    # ---- parser phase: token-level mutants through the parser alone --------------------------------------------------
    # (added because of seeded change C06: a pattern parser that stops consuming `=>` breaks the progress assumption of the
    # parameter-list loop; only "almost valid" text reaches it. The semantic phases do not saturate for such text -- see
    # NARROWING -- but the parser does, so these families are evaluated by the parser alone.)
    if fams == DEFAULT_FAMILIES and opts.get("parser_phase", "1") != "0":
        pcount = int(opts.get("pcount", ctx.pick(24000, 400000)))
        pkv = {"families": PARSER_FAMILIES, "bases": "all", "phase": "parser"}
        if "cpu_limit_ms" in opts:
            pkv["cpu_limit_ms"] = int(opts["cpu_limit_ms"])
        r2 = inproc.run_sharded("vh-front", "front", ctx.seed, pcount, "c06p", timeout=ctx.pick(1800, 3600), kv=pkv)
        pf = {}
        for o in r2.ok:
            ctx.observe(o.get("h"))
            pf[o.get("fam")] = pf.get(o.get("fam"), 0) + 1
        ctx.counters["parser_phase_cases"] = len(r2.ok)
        ctx.counters["parser_phase_inputs_with_syntax_errors"] = sum(1 for o in r2.ok if not o.get("clean"))
        ctx.extra["parser_phase_inputs_per_family"] = pf
        ctx.required_counters = ctx.required_counters + ["parser_phase_cases", "parser_phase_inputs_with_syntax_errors"]
        for o in sorted(r2.bad, key=lambda o: (len(o.get("input") or "") or 10**9, o["idx"])):
            ctx.violation(o["key"], "%s [parser phase, family %s, case %d]" % (o["what"], o.get("family"), o["idx"]),
                          files={"input.dora": o.get("input", "")},
                          cmd="target-harness/release/vh-front front --seed %d --count %d --only %d --out <dir> families=%s bases=all phase=parser"
                              % (ctx.seed, pcount, o["idx"], PARSER_FAMILIES))
        for d in r2.deaths[:4]:
            if d.get("idx") is None:
                ctx.inconc("parser phase: a child ended (rc=%s) outside a case" % d["rc"])
                continue
            rc, out, bad = harness_alone(ctx, d["idx"], pcount, PARSER_FAMILIES, {"bases": "all", "phase": "parser"}, "p")
            if rc is None:
                ctx.inconc("parser phase: case %s ended its child (rc=%s); the re-run alone hit the wall-clock watchdog" % (d["idx"], d["rc"]))
            elif bad:
                for o in bad:
                    ctx.violation(o["key"], "%s [parser phase, case %d, alone]" % (o["what"], d["idx"]), files={"input.dora": d.get("input", "")})
            elif rc != 0:
                ctx.violation("c06:parser:%s" % ("does-not-terminate" if rc == EXIT_SLOW else "died-rc%s" % rc),
                              "the parser alone %s on case %d of the parser phase (also when run alone)"
                              % ("exceeds the CPU bound" if rc == EXIT_SLOW else "ends the process with status %s" % rc, d["idx"]),
                              files={"input.dora": d.get("input", "")})
        for d in r2.deaths[4:]:
            ctx.inconc("parser phase: case %s ended its child (rc=%s) and was not re-checked" % (d.get("idx"), d["rc"]))

    # ---- children that were ended ---------------------------------------------------------------------------
    slow = [d for d in r.deaths if d["rc"] == EXIT_SLOW and d["idx"] is not None]
    dead = [d for d in r.deaths if d["rc"] != EXIT_SLOW]

    # Re-check ended children alone. One confirmed case per class is enough for a verdict, so at most
    # MAX_RECHECK cases of each class (smallest inputs first) are re-run; the others are listed as not re-checked.
    MAX_RECHECK = 4
    slow.sort(key=lambda d: len(d["input"]))
    dead.sort(key=lambda d: len(d["input"]))
    for d in slow[MAX_RECHECK:] + [d for d in dead[MAX_RECHECK:] if d["idx"] is not None]:
        ctx.inconc("case %s ended its child (rc=%s) and was not re-checked alone (more than %d such cases)" % (d["idx"], d["rc"], MAX_RECHECK))
    slow, dead = slow[:MAX_RECHECK], [d for d in dead if d["idx"] is None] + [d for d in dead if d["idx"] is not None][:MAX_RECHECK]

    def verdict_of_alone_run(d, rc, out, bad, limit_note):
        """Classifies the outcome of running case d alone (shared by the slow and the dead class)."""
        idx = d["idx"]
        m = re.match(r"\[stage ([a-z_]+)\]", out or "")
        stage = m.group(1) if m else "unknown"
        if rc is None:
            ctx.inconc("case %s: the re-run alone hit the wall-clock watchdog" % idx)
        elif rc == EXIT_SLOW:
            ctx.violation("c06:nontermination:%s" % stage,
                          "case %s: stage `%s` does not terminate within the CPU-time bound when run alone %s: %s" % (idx, stage, limit_note, out[-200:]),
                          files={"input.dora": d["input"]})
        elif rc != 0 and "memory allocation of" in (out or ""):
            ctx.violation("c06:nontermination:%s" % stage,
                          "case %s: stage `%s` exhausted the 3 GiB address-space bound of the harness child when run alone (unbounded "
                          "allocation, i.e. a loop that does not terminate; a normal input needs < 0.5 GiB): %s" % (idx, stage, out[:300]),
                          files={"input.dora": d["input"]})
        elif rc != 0:
            ctx.violation("c06:child-death:rc=%s" % rc,
                          "the front end ended the process in stage `%s` (rc=%s; abort / stack overflow) on case %s: %s"
                          % (stage, rc, idx, (out or d["log"])[-500:]), files={"input.dora": d["input"]})
        else:
            return False    # ran to completion
        return True

    def recheck_slow(d):
        m = re.search(r"limit_ms=(\d+)", d.get("log", ""))
        limit = int(m.group(1)) if m else 15000
        return d, limit, harness_alone(ctx, d["idx"], count, fams, dict(base_kv, cpu_limit_ms=limit * 10), "slow")

    for d, limit, (rc, out, bad) in execu.pmap(recheck_slow, slow, workers=4):
        ctx.observe("slow%d" % d["idx"])
        ctx.count("slow_inputs")
        note = "(%d ms = 10 x the bound of the sharded run, which was %d ms%s)" % (
            limit * 10, limit, "" if "cpu_limit_ms" in opts else " = 200 x the cost of a trivial program")
        if not verdict_of_alone_run(d, rc, out, bad, note):
            ctx.inconc("case %d: slower than %d ms CPU in the sharded run but finished within %d ms when run alone" % (d["idx"], limit, limit * 10))
            for o in bad:
                ctx.violation(o["key"], "%s [case %d, run alone]" % (o["what"], o["idx"]), files={"input.dora": o.get("input", "")})

    def recheck_dead(d):
        if d["idx"] is None:
            return d, (None, "", [])
        return d, harness_alone(ctx, d["idx"], count, fams, base_kv, "dead")

    for d, (rc, out, bad) in execu.pmap(recheck_dead, dead, workers=4):
        if d["idx"] is None:
            ctx.inconc("a harness child died (rc=%s) before its first case: %s" % (d["rc"], d["log"][-300:]))
            continue
        ctx.observe("dead%d" % d["idx"])
        if not verdict_of_alone_run(d, rc, out, bad, "(default bound)"):
            ctx.inconc("child died (rc=%s) on case %s but the case passes when run alone" % (d["rc"], d["idx"]))
    for s in r.timeouts:
        ctx.inconc("shard %d hit the wall-clock watchdog" % s)

    # ---- the real CLI on ~2 % of the inputs -----------------------------------------------------------------
    if with_cli:
        run_cli(ctx, clidir, dora)
    shutil.rmtree(clidir, ignore_errors=True)

    seen = set()
    for o in r.ok:
        if o.get("snip") and o.get("fam") not in seen and len(seen) < 10:
            seen.add(o.get("fam"))
            ctx.sample({"case_index": o.get("idx"), "family": o.get("fam"), "parse_clean": o.get("clean"), "accepted": o.get("ok"),
                        "cpu_ms": o.get("ms"), "input_first_160_chars": o.get("snip")}, limit=10)
    ctx.extra["harness_wall_s"] = round(r.wall, 1)
