"""C07 -- every x86-64 instruction is encoded as the instruction that was requested (DESIGN.md 5 C07, A.2).

Oracle: LLVM 14 (`llvm-mc`) as independent reference decoder/encoder. For every request (method, operands) the
real assembler emits bytes; the check requires
  * the bytes decode to exactly ONE instruction that consumes ALL bytes (no warning, nothing left over),
  * T = LLVM's text of that instruction and R = the request rendered from vlib/asmspec/x64.py assemble (LLVM's
    own encoder, canonicalising aliases and alternative encodings) to the same bytes,
  * jumps/calls: mnemonic (condition via `set<cc>` through LLVM) and the relative displacement decoded by LLVM
    equal the distance to the position the label was bound to; RIP-relative label operands likewise,
  * bytes around the instruction (nop padding) are untouched and labels are bound where requested,
  * an illegal request (LLVM cannot encode R, e.g. rsp as index) is refused (panic/assert), never encoded.
Both assemblers get the same requests: dora-asm/src/x64.rs through harness/vh-asm-x64, and
pkgs/boots/assembler/x64.dora through a generated `mod verif_c07` appended to a scratch copy of the boots
package, compiled with the real (baseline) compiler (`dora compile --test --internal-compile-boots --cannon`).
"""
import json
import os
import re
import shutil
import struct
import subprocess
import time

from .. import build
from ..asmspec import x64 as spec
from ..core import NCPU, REPO, scratch

MATTR = "-mattr=+avx2,+bmi,+bmi2,+lzcnt,+popcnt"
SENTINEL = "[0x0f 0x0b]"   # ud2: never emitted by any assembler method
MAX_KEYS = 25
PREFIXES = ("lock", "rep", "repne", "repe", "repz", "repnz", "data16", "addr32", "notrack", "xacquire", "xrelease")


class OracleError(Exception):
    pass


def find_llvm_mc():
    for name in ("llvm-mc-14", "llvm-mc"):
        p = shutil.which(name)
        if p:
            return p
    return None


# ---------------------------------------------------------------------------------------------------
# llvm-mc batches

class Llvm:
    def __init__(self, exe):
        self.exe = exe
        self.calls = 0
        self.asm_cache = {}

    def _run(self, args, text):
        self.calls += 1
        p = subprocess.run([self.exe, "-triple=x86_64", MATTR, "-output-asm-variant=1"] + args,
                           input=text.encode(), capture_output=True, timeout=600)
        return p.stdout.decode(errors="replace"), p.stderr.decode(errors="replace")

    def disassemble(self, hexes):
        """[(list of instruction texts, had_warning)] per input byte string."""
        out = []
        for i in range(0, len(hexes), 50000):
            out += self._dis(hexes[i:i + 50000])
        return out

    def _dis(self, hexes):
        if not hexes:
            return []
        lines = []
        for h in hexes:
            lines.append("[" + " ".join("0x" + h[i:i + 2] for i in range(0, len(h), 2)) + "]")
            lines.append(SENTINEL)
        so, se = self._run(["--disassemble"], "\n".join(lines) + "\n")
        warned = set()
        for m in re.finditer(r"^<stdin>:(\d+):\d+: (warning|error)", se, flags=re.M):
            warned.add((int(m.group(1)) - 1) // 2)
        groups = [[]]
        for ln in so.split("\n"):
            s = ln.strip()
            if not s or s.startswith(".") or s.startswith("#"):
                continue
            s = re.sub(r"\s+", " ", s)
            if s == "ud2":
                groups.append([])
            elif groups[-1] and groups[-1][-1].split(" ")[-1] in PREFIXES:
                # LLVM prints a prefix byte as a line of its own; it belongs to the instruction that follows
                groups[-1][-1] += " " + s
            else:
                groups[-1].append(s)
        if len(groups) != len(hexes) + 1 or groups[-1]:
            # a stray ud2 inside some emitted bytes: isolate it by bisection
            if len(hexes) == 1:
                flat = [x for g in groups for x in g] + ["ud2"] * (len(groups) - 2)
                return [(flat or ["<undecodable>"], True)]
            mid = len(hexes) // 2
            return self._dis(hexes[:mid]) + self._dis(hexes[mid:])
        return [(groups[i], i in warned) for i in range(len(hexes))]

    def assemble(self, texts):
        """Fill the cache text -> hex encoding (or None when LLVM rejects the text)."""
        todo = sorted(set(t for t in texts if t not in self.asm_cache))
        for i in range(0, len(todo), 50000):
            self._asm(todo[i:i + 50000])
        return self.asm_cache

    def _asm(self, texts):
        if not texts:
            return
        so, se = self._run(["-show-encoding"], ".intel_syntax noprefix\n" + "\n".join(texts) + "\n")
        bad = set()
        for m in re.finditer(r"^<stdin>:(\d+):\d+: error", se, flags=re.M):
            bad.add(int(m.group(1)) - 2)
        encs = re.findall(r"^\t[^\n#]*# encoding: \[([^\]]*)\]", so, flags=re.M)
        good = [i for i in range(len(texts)) if i not in bad]
        if len(encs) != len(good):
            if len(texts) == 1:
                self.asm_cache[texts[0]] = None
                return
            mid = len(texts) // 2
            self._asm(texts[:mid])
            self._asm(texts[mid:])
            return
        for i in bad:
            if 0 <= i < len(texts):
                self.asm_cache[texts[i]] = None
        for i, e in zip(good, encs):
            self.asm_cache[texts[i]] = "".join(x.strip()[2:] if x.strip().startswith("0x") else x.strip()
                                               for x in e.split(","))


# ---------------------------------------------------------------------------------------------------
# requests

class Req:
    __slots__ = ("id", "spec", "avx", "pre", "toks")

    def __init__(self, id_, sp, avx, pre, toks):
        self.id, self.spec, self.avx, self.pre, self.toks = id_, sp, avx, pre, toks

    def line(self):
        return "%d %s %d %d %s" % (self.id, self.spec.name, 1 if self.avx else 0, self.pre, " ".join(self.toks))

    def label(self):
        for t in self.toks:
            if t[0] == "L":
                return t[1], int(t[2:])
        return None


def make_requests(ctx, specs, stream):
    """specs: list of Spec. Deterministic in (seed, tier, stream)."""
    thorough = not ctx.quick()
    rng = ctx.rng(stream)
    addr_dom = spec.address_domain(rng, thorough)
    reqs = []
    for sp in specs:
        for toks in spec.gen_requests(sp, rng, thorough, addr_dom):
            i = len(reqs)
            avx = sp.avx if sp.avx is not None else (i % 2 == 1)
            reqs.append(Req(i, sp, avx, i % 4, toks))
    return reqs


# ---------------------------------------------------------------------------------------------------
# running the Rust assembler

def run_rust(ctx, reqs, name):
    exe = build.harness_bin("vh-asm-x64")
    d = scratch(name)
    n = min(NCPU, max(1, len(reqs) // 500))
    procs = []
    for s in range(n):
        part = reqs[s::n]
        with open(os.path.join(d, "req_%d.txt" % s), "w") as f:
            f.write("\n".join(r.line() for r in part) + "\n")
        e = dict(os.environ)
        e["RUST_BACKTRACE"] = "0"
        p = subprocess.Popen([exe, "run", "in=" + os.path.join(d, "req_%d.txt" % s),
                              "out=" + os.path.join(d, "res_%d.jsonl" % s)],
                             stdout=subprocess.DEVNULL, stderr=subprocess.DEVNULL, env=e, stdin=subprocess.DEVNULL)
        procs.append((p, s, part))
    results = {}
    deaths = []
    for p, s, part in procs:
        try:
            rc = p.wait(timeout=900)
        except subprocess.TimeoutExpired:
            p.kill()
            p.wait()
            ctx.inconc("rust harness shard %d hit the watchdog" % s)
            rc = None
        done = False
        try:
            with open(os.path.join(d, "res_%d.jsonl" % s)) as f:
                for ln in f:
                    try:
                        o = json.loads(ln)
                    except ValueError:
                        continue
                    if o.get("st") == "done":
                        done = True
                    elif "id" in o:
                        results[o["id"]] = o
        except OSError:
            pass
        if not done and rc is not None:
            missing = [r for r in part if r.id not in results]
            deaths.append((rc, missing[0] if missing else None))
    return results, deaths


# ---------------------------------------------------------------------------------------------------
# running the Dora assembler

DORA_MOD_HEADER = """
// ---- generated by /verif/vlib/props/c07.py: executes C07 requests against the code above ----
mod verif_c07 {
    use super::{Address, AssemblerX64, Condition, Immediate, ScaleFactor};
    use package::assembler::{FloatRegister, Label, Register};

    class Rd {
        data: Array[UInt8],
        pos: Int64,
    }

    impl Rd {
        fn word(): Int64 {
            let mut v: Int64 = 0;
            let mut i: Int64 = 0;
            let mut sh: Int32 = 0i32;
            while i < 8 {
                v = v | (self.data(self.pos + i).to_int64() << sh);
                i = i + 1;
                sh = sh + 8i32;
            }
            self.pos = self.pos + 8;
            v
        }

        fn reg(): Register {
            Register(self.word().to_uint8())
        }

        fn xmm(): FloatRegister {
            FloatRegister(self.word().to_uint8())
        }

        fn imm(): Immediate {
            Immediate(self.word())
        }

        fn i32(): Int32 {
            self.word().to_int32()
        }

        fn u8(): UInt8 {
            self.word().to_uint8()
        }

        fn scale(): ScaleFactor {
            let v = self.word();
            if v == 1 {
                ScaleFactor::One
            } else if v == 2 {
                ScaleFactor::Two
            } else if v == 4 {
                ScaleFactor::Four
            } else {
                assert(v == 8);
                ScaleFactor::Eight
            }
        }

        fn addr(): Address {
            let k = self.word();
            let b = self.reg();
            let i = self.reg();
            let s = self.scale();
            let d = self.i32();
            if k == 0 {
                Address::offset(b, d)
            } else if k == 1 {
                Address::index(i, s, d)
            } else if k == 2 {
                Address::array(b, i, s, d)
            } else {
                assert(k == 3);
                Address::rip(d)
            }
        }
"""

DORA_MOD_RUN = """
    fn nops(asm: AssemblerX64, n: Int64) {
        let mut i: Int64 = 0;
        while i < n {
            asm.nop();
            i = i + 1;
        }
    }

    @Test
    fn c07_run() {
        let data = std::io::File::new("c07_requests.bin").read_as_bytes().get_or_panic();
        let rd = Rd(data = data, pos = 0);
        println("C07START");
        while rd.pos < data.size() {
            let id = rd.word();
            let m = rd.word();
            let avx = rd.word() != 0;
            let pre = rd.word();
            let lkind = rd.word();
            let lk = rd.word();
            let asm = AssemblerX64::new(avx);
            nops(asm, pre);
            let lbl = if lkind == 2 {
                if id % 2 == 1 {
                    asm.create_and_bind_label()
                } else {
                    let l = asm.create_label();
                    asm.bind_label(l);
                    l
                }
            } else {
                asm.create_label()
            };
            if lkind == 2 {
                nops(asm, lk);
            }
            let start = asm.position().to_int64();
            dispatch(asm, m, rd, lbl);
            let end = asm.position().to_int64();
            if lkind == 1 {
                nops(asm, lk);
                asm.bind_label(lbl);
            }
            nops(asm, 3);
            let lpos: Int64 = if lkind == 0 { -1 } else { lbl.get_offset().get_or_panic() };
            asm.resolve_jumps();
            let code = asm.finalize();
            let mut clean = start <= end && end <= code.size();
            let mut text = "";
            let mut i: Int64 = 0;
            while i < code.size() {
                if clean && i >= start && i < end {
                    text = "${text}.${code(i).to_int32()}";
                } else if code(i) != 0x90u8 {
                    clean = false;
                }
                i = i + 1;
            }
            println("C07R ${id} ${start} ${end} ${lpos} ${code.size()} ${clean} ${text}");
        }
        println("C07DONE");
    }
}
"""


def dora_module(specs_by_id):
    """Dora source of `mod verif_c07`: request reader, dispatch over method ids, @Test driver."""
    out = [DORA_MOD_HEADER]
    out.append("        fn cond(): Condition {\n            let v = self.word();\n")
    first = True
    for i, (cname, _) in enumerate(spec.CONDITIONS):
        out.append("            %sif v == %d {\n                Condition::%s\n            }" % ("" if first else " else ", i, cname))
        first = False
    out.append(" else {\n                unreachable()\n            }\n        }\n    }\n\n")
    rdfn = {"R": "rd.reg()", "X": "rd.xmm()", "A": "rd.addr()", "I": "rd.imm()", "C": "rd.cond()", "U": "rd.u8()",
            "D": "rd.i32()", "L": "lbl"}
    # small dispatch functions: the optimizing compiler is slow on one function with hundreds of calls
    CH = 12
    items = sorted(specs_by_id.items())
    out.append("    fn dispatch(asm: AssemblerX64, m: Int64, rd: Rd, lbl: Label) {\n")
    for c in range(0, len(items), CH):
        out.append("        if m < %d {\n            dispatch_%d(asm, m, rd, lbl);\n            return;\n        }\n" % (
            items[min(c + CH, len(items)) - 1][0] + 1, c // CH))
    out.append("        unreachable();\n    }\n\n")
    for c in range(0, len(items), CH):
        out.append("    fn dispatch_%d(asm: AssemblerX64, m: Int64, rd: Rd, lbl: Label) {\n" % (c // CH))
        for mid, sp in items[c:c + CH]:
            out.append("        if m == %d {\n" % mid)
            args = []
            for j, ch in enumerate(sp.sig()):
                out.append("            let a%d = %s;\n" % (j, rdfn[ch]))
                args.append("a%d" % j)
            out.append("            asm.%s(%s);\n            return;\n        }\n" % (sp.name, ", ".join(args)))
        out.append("        unreachable();\n    }\n\n")
    out.append(DORA_MOD_RUN)
    return "".join(out)


def dora_encode(req, mid):
    w = [req.id, mid, 1 if req.avx else 0, req.pre]
    lab = req.label()
    w += [0, 0] if lab is None else [1 if lab[0] == "f" else 2, lab[1]]
    for t in req.toks:
        c = t[0]
        if c in "rxiud":
            w.append(int(t[1:]))
        elif c == "c":
            w.append([n for n, _ in spec.CONDITIONS].index(t[1:]))
        elif c == "a":
            p = t[1:].split(":")
            if p[0] == "o":
                w += [0, int(p[1]), 0, 1, int(p[2])]
            elif p[0] == "g":
                w += [0, int(p[1]), 0, 1, 0]
            elif p[0] == "i":
                w += [1, 0, int(p[1]), int(p[2]), int(p[3])]
            elif p[0] == "a":
                w += [2, int(p[1]), int(p[2]), int(p[3]), int(p[4])]
            else:
                w += [3, 0, 0, 1, int(p[1])]
        elif c == "L":
            pass
        else:
            raise ValueError(t)
    return b"".join(struct.pack("<q", x) for x in w)


def build_dora_runner(ctx, specs_by_id):
    """Scratch copy of the working tree's boots package + generated module, compiled with the real compiler.
    Returns path of the test binary."""
    # The test binary is compiled with the baseline compiler (--cannon, which uses the *Rust* assembler): the
    # optimizing compiler is built from the very package under test, so a defect in the Dora assembler would
    # otherwise corrupt (or prevent building) the program that is supposed to observe it.
    bindir = build.ensure_toolchain("rel", need_boots=False)
    d = scratch("c07_dora_pkg")
    pkg = os.path.join(d, "boots")
    shutil.copytree(os.path.join(REPO, "pkgs", "boots"), pkg)
    # The package's own unit tests must not run in the observer binary: the test runner executes every @Test in
    # one process and the first failing assert ends it -- a defective assembler fails its own unit tests first
    # and the C07 driver would never be reached. Only the annotation lines are removed (scratch copy only), the
    # code under test is untouched.
    for root, _, files in os.walk(pkg):
        for fn in files:
            if fn.endswith(".dora"):
                path = os.path.join(root, fn)
                src = open(path).read()
                if "@Test" in src:
                    with open(path, "w") as f:
                        f.write(re.sub(r"^([ \t]*)@Test[ \t]*$", r"\1", src, flags=re.M))
    with open(os.path.join(pkg, "assembler", "x64.dora"), "a") as f:
        f.write(dora_module(specs_by_id))
    exe = os.path.join(d, "c07_dora_tests")
    env = dict(os.environ)
    env.pop("DORA_FLAGS", None)
    p = subprocess.run([os.path.join(bindir, "dora"), "compile", "--test", "--internal-compile-boots", "--cannon",
                        os.path.join(pkg, "boots.dora"), "-o", exe],
                       capture_output=True, text=True, timeout=900, env=env, cwd=d)
    if p.returncode != 0 or not os.path.exists(exe):
        raise OracleError("compiling the boots package with the generated C07 module failed:\n" +
                          (p.stdout + p.stderr)[-3000:])
    return exe


def _run_dora_shard(exe, d, part, ids):
    """Runs the requests of one shard; a trap (failed assert in the assembler = refusal) kills the process, the
    request after the last reported one is then recorded as refused and the run resumes behind it."""
    results = {}
    os.makedirs(d, exist_ok=True)
    pos = 0
    env = dict(os.environ)
    env.pop("DORA_FLAGS", None)
    restarts = 0
    odd = None
    while pos < len(part):
        with open(os.path.join(d, "c07_requests.bin"), "wb") as f:
            f.write(b"".join(dora_encode(r, ids[r.spec.name]) for r in part[pos:]))
        try:
            p = subprocess.run([exe], cwd=d, capture_output=True, timeout=900, env=env, stdin=subprocess.DEVNULL)
        except subprocess.TimeoutExpired:
            return results, "timeout", restarts
        n = 0
        done = False
        if b"C07START" not in p.stdout:
            return results, "the C07 driver was not reached (rc=%s): %s" % (
                p.returncode, (p.stdout[-300:] + p.stderr[-500:]).decode(errors="replace")), restarts
        for ln in p.stdout.decode(errors="replace").split("\n"):
            k = ln.find("C07R ")
            if k >= 0:
                f = ln[k:].split(" ")
                rid = int(f[1])
                hexs = "".join("%02x" % int(x) for x in f[7].split(".") if x) if len(f) > 7 else ""
                results[rid] = {"id": rid, "st": "ok", "start": int(f[2]), "end": int(f[3]),
                                "lbl": None if int(f[4]) < 0 else int(f[4]), "total": int(f[5]),
                                "clean": f[6] == "true", "hex": hexs}
                n += 1
            elif "C07DONE" in ln:
                done = True
        if done:
            break
        # died: attribute to the first request without a result
        if pos + n >= len(part):
            return results, "died after the last request (rc=%s)" % p.returncode, restarts
        r = part[pos + n]
        err = (p.stderr.decode(errors="replace") + p.stdout.decode(errors="replace")[-300:])
        results[r.id] = {"id": r.id, "st": "refused", "loc": "dora rc=%s" % p.returncode,
                         "msg": err.strip().split("\n")[0][:200] if err.strip() else ""}
        pos += n + 1
        restarts += 1
        if not (101 <= p.returncode <= 111) and odd is None:
            # not a Dora trap (assert = 102): a signal or runtime failure, reported as inconclusive
            odd = "process ended with rc=%s (not a trap) at request %r" % (p.returncode, r.line())
        if restarts > 3000:
            return results, "too many restarts", restarts
    return results, odd, restarts


def run_dora(ctx, exe, reqs, risky, ids, name):
    from concurrent.futures import ThreadPoolExecutor
    d = scratch(name)
    n = NCPU
    parts = [reqs[s::n] for s in range(n)] + [[r] for r in risky]
    results = {}
    problems = []
    restarts = 0
    with ThreadPoolExecutor(max_workers=n) as ex:
        futs = [ex.submit(_run_dora_shard, exe, os.path.join(d, "s%d" % s), parts[s], ids)
                for s in range(len(parts)) if parts[s]]
        for f in futs:
            r, prob, rs = f.result()
            results.update(r)
            restarts += rs
            if prob:
                problems.append(prob)
    for p in problems:
        ctx.inconc("dora runner: " + p)
    ctx.count("dora_process_restarts", restarts)
    return results


# ---------------------------------------------------------------------------------------------------
# verdicts

class Verifier:
    def __init__(self, ctx, llvm):
        self.ctx = ctx
        self.llvm = llvm
        self.keys = set()
        self.suppressed = 0
        self.refused_classes = {}
        self.dora_unexpected_refusals = []
        self.samples = {}

    def report(self, asm, req, res, kind, what, extra=None):
        sh = spec.shape(req.spec, req.toks)
        key = "c07:%s%s:%s:%s" % ("" if asm == "rust" else asm + ":", req.spec.name, sh, kind)
        if key not in self.keys and len(self.keys) >= MAX_KEYS:
            self.suppressed += 1
            return
        self.keys.add(key)
        files = {"request.txt": req.line() + "\n",
                 "emitted.hex": (res or {}).get("hex", "") + "\n",
                 "harness_result.json": json.dumps(res, indent=1) + "\n"}
        for k, v in (extra or {}).items():
            files[k] = v + "\n"
        self.ctx.violation(key, "[%s assembler] %s(%s) avx=%s: %s" % (asm, req.spec.name, " ".join(req.toks), req.avx, what),
                           files=files,
                           cmd="echo '%s' > r.txt && vh-asm-x64 run in=r.txt out=/dev/stdout" % req.line())

    def verify(self, asm, reqs, results):
        ctx, llvm = self.ctx, self.llvm
        ok = []
        per_method = {}
        for r in reqs:
            res = results.get(r.id)
            pm = per_method.setdefault(r.spec.name, [0, 0])
            if res is None:
                ctx.count("%s_requests_without_result" % asm)
                continue
            st = res["st"]
            if st == "refused":
                pm[1] += 1
                ctx.count("%s_refused" % asm)
                c = "%s:%s:%s" % (asm, r.spec.name, spec.shape(r.spec, r.toks))
                self.refused_classes[c] = self.refused_classes.get(c, 0) + 1
                if asm == "dora" and spec.plausible(r.spec, r.toks) and len(self.dora_unexpected_refusals) < 50:
                    self.dora_unexpected_refusals.append({"request": r.line(), "refusal": res.get("msg", "")[:160]})
                continue
            if st == "unknown":
                ctx.violation("c07:uncovered-method:%s" % r.spec.name,
                              "%s: method %s is not in the dispatch table of harness/vh-asm-x64" % (asm, r.spec.name))
                continue
            if st != "ok":
                raise OracleError("harness rejected request %r: %r" % (r.line(), res))
            pm[0] += 1
            ok.append((r, res))
        ctx.count("%s_requests" % asm, len(reqs))
        ctx.count("%s_encoded" % asm, len(ok))
        dec = llvm.disassemble([res["hex"] for _, res in ok])
        # texts to canonicalise through LLVM's encoder
        need = set()
        rendered = []
        for (r, res), (ins, warn) in zip(ok, dec):
            rr = spec.render(r.spec, r.toks, res)
            rendered.append(rr)
            if rr[0] == "text":
                need.add(rr[1])
                if len(ins) == 1:
                    need.add(ins[0])
            else:
                if rr[2] is not None:
                    need.add("set%s al" % rr[2])
                if len(ins) == 1:
                    m = re.match(r"^j(\w+) ", ins[0])
                    if m and m.group(1) != "mp":
                        need.add("set%s al" % m.group(1))
        enc = llvm.assemble(need)
        for (r, res), (ins, warn), rr in zip(ok, dec, rendered):
            sh = spec.shape(r.spec, r.toks, with_scale=True)
            ctx.observe((asm, r.spec.name, sh))
            cat = (asm, "label" if r.label() else ("mem" if any(t[0] == "a" for t in r.toks) else
                         ("vex" if r.spec.avx else ("imm" if any(t[0] == "i" for t in r.toks) else "reg"))))
            if cat not in self.samples and r.id % 7 == 3:
                self.samples[cat] = True
                ctx.sample({"assembler": asm, "request": r.line(), "emitted": res["hex"], "llvm_decodes": ins,
                            "expected": rr[1] if rr[0] == "text" else "%s%s %+d" % (rr[1], rr[2] or "", rr[3])}, limit=10)
            ex = {"llvm_decoding.txt": "\n".join(ins), "expected.txt": repr(rr)}
            if not res.get("clean", True):
                self.report(asm, r, res, "clobbered", "bytes outside the instruction were modified or the positions "
                            "reported by the assembler are inconsistent (start=%s end=%s total=%s)" % (
                                res.get("start"), res.get("end"), res.get("total")), ex)
                continue
            lab = r.label()
            if lab is not None:
                want = r.pre if lab[0] == "b" else res["end"] + lab[1]
                if res.get("lbl") != want or (lab[0] == "b" and res["start"] != r.pre + lab[1]):
                    self.report(asm, r, res, "label-position", "label bound at %s, expected %s" % (res.get("lbl"), want), ex)
                    continue
            if len(res["hex"]) == 0:
                self.report(asm, r, res, "nothing-emitted", "no bytes emitted", ex)
                continue
            if len(ins) != 1 or warn:
                self.report(asm, r, res, "decode", "emitted bytes %s do not decode to exactly one instruction "
                            "consuming all bytes: LLVM sees %r%s" % (res["hex"], ins, " (+ undecodable bytes)" if warn else ""), ex)
                continue
            t = ins[0]
            if rr[0] == "text":
                er, et = enc.get(rr[1]), enc.get(t)
                if er is None:
                    self.report(asm, r, res, "unencodable-request-not-refused",
                                "the request has no encoding (LLVM rejects %r) but the assembler emitted %s = %r instead "
                                "of refusing" % (rr[1], res["hex"], t), ex)
                elif et is None:
                    ctx.inconc("LLVM cannot re-assemble its own decoding %r of %s (%s)" % (t, res["hex"], r.line()))
                elif er != et:
                    self.report(asm, r, res, "wrong-instruction", "requested %r (canonical %s) but emitted %s which is %r "
                                "(canonical %s)" % (rr[1], er, res["hex"], t, et), ex)
                else:
                    if len(er) != len(res["hex"]):
                        ctx.count("%s_noncanonical_length" % asm)
            else:
                _, mn, cond, disp = rr
                m = re.match(r"^(\w+) (-?\d+)$", t)
                if not m:
                    self.report(asm, r, res, "wrong-instruction", "expected a relative %s%s, emitted %s = %r" % (
                        mn, cond or "", res["hex"], t), ex)
                    continue
                tmn, tdisp = m.group(1), int(m.group(2))
                if cond is None:
                    same = tmn == mn
                else:
                    a = enc.get("set%s al" % cond)
                    b = enc.get("set%s al" % tmn[1:]) if tmn.startswith("j") and tmn != "jmp" else None
                    if a is None:
                        raise OracleError("LLVM does not know condition suffix %r" % cond)
                    same = b is not None and a == b
                if not same:
                    self.report(asm, r, res, "wrong-instruction", "expected %s%s, emitted %s = %r" % (mn, cond or "", res["hex"], t), ex)
                elif tdisp != disp:
                    self.report(asm, r, res, "wrong-target", "%r lands at %+d relative to the end of the instruction; the "
                                "label is at %+d (label=%s, instruction=%s..%s)" % (t, tdisp, disp, res.get("lbl"),
                                                                                  res.get("start"), res.get("end")), ex)
        for name, (n_ok, n_ref) in sorted(per_method.items()):
            if n_ok == 0:
                ctx.inconc("%s: every request for %s was refused (%d)" % (asm, name, n_ref))
        return per_method


# ---------------------------------------------------------------------------------------------------

def coverage_table(ctx, asm, present, helpers, extra_known=None):
    """Specs of the instruction methods present in the source; uncovered ones are violations."""
    specs = []
    for name, sig in sorted(present.items()):
        if name in helpers:
            continue
        sp = spec.derive(name)
        if sp is None:
            ctx.violation("c07:uncovered-method:%s" % name,
                          "%s assembler has a public method %s(%s) that vlib/asmspec/x64.py does not cover (neither the naming "
                          "convention nor the override table nor the helper whitelist)" % (asm, name, sig))
            continue
        if sp.sig() != sig:
            ctx.violation("c07:spec-signature-mismatch:%s" % name,
                          "%s assembler: %s has parameter kinds %s, the specification derives %s" % (asm, name, sig, sp.sig()))
            continue
        if extra_known is not None and name not in extra_known:
            ctx.violation("c07:uncovered-method:%s" % name,
                          "%s assembler method %s is not in the dispatch table of harness/vh-asm-x64" % (asm, name))
            continue
        specs.append(sp)
    return specs


def run(ctx):
    t0 = time.time()
    exe = find_llvm_mc()
    if exe is None:
        ctx.inconc("llvm-mc not installed")
        return
    ver = subprocess.run([exe, "--version"], capture_output=True, text=True).stdout
    ctx.extra["oracle"] = " ".join(ver.split())[:120]
    llvm = Llvm(exe)
    build.ensure_harness(["vh-asm-x64"])
    lst = subprocess.run([build.harness_bin("vh-asm-x64"), "list"], capture_output=True, text=True).stdout.split("\n")
    harness_methods = {ln.split(" ")[0] for ln in lst if ln and not ln.startswith("@")}
    harness_conds = [ln.split(" ")[1] for ln in lst if ln.startswith("@cond")]

    rust_src = os.path.join(REPO, "dora-asm", "src", "x64.rs")
    dora_src = os.path.join(REPO, "pkgs", "boots", "assembler", "x64.dora")
    rust_present = spec.rust_methods(rust_src)
    dora_present = spec.dora_methods(dora_src)
    for lang, path in (("rust", rust_src), ("dora", dora_src)):
        vs = spec.enum_variants(path, lang)
        for v in vs:
            if v not in spec.COND_SUFFIX or v not in harness_conds:
                ctx.violation("c07:uncovered-condition:%s" % v, "%s Condition::%s has no entry in the condition table" % (lang, v))
        if not vs:
            ctx.inconc("could not parse enum Condition in %s" % path)
    rust_specs = coverage_table(ctx, "rust", rust_present, spec.HELPERS_RUST, harness_methods)
    dora_specs = coverage_table(ctx, "dora", dora_present, spec.HELPERS_DORA)
    n_rust_instr = len([n for n in rust_present if n not in spec.HELPERS_RUST])
    n_dora_instr = len([n for n in dora_present if n not in spec.HELPERS_DORA])

    ctx.rule = ("case = (assembler, method, has_avx2, operand tokens, label layout); generated per method from operand "
                "domains (16 GPR/XMM per register operand, address shapes offset/index/array/rip with rsp/r12/rbp/r13 "
                "forced and displacements at the disp8/disp32 boundaries, immediates at the imm8/imm32/imm64 "
                "boundaries, all 28 Condition variants, label distances around +-127); every domain value occurs in "
                "every operand position (thorough: all pairs of register-like operands); evaluated = request that was "
                "encoded (not refused) and compared with LLVM; distinct = (assembler, method, operand-shape class incl. scale)")
    ctx.assumptions = [
        "LLVM 14 (llvm-mc) decodes and encodes x86-64 correctly (independent reference)",
        "testl_ri(reg, imm) with 0 <= imm < 256 is specified (pinned by the unit tests of both assemblers) to emit the byte form "
        "`test r8, imm8`; the check accepts exactly that narrowing (SF differs from the 32-bit form if bit 7 is set)",
        "a request the assembler refuses (panic/assert/trap) is not a violation; refusals are counted per class",
        "redundant-but-harmless prefixes that LLVM's decoder swallows silently (e.g. a REX prefix without bits) are not detected",
        "Address index*1 without base is rendered as the equivalent [index + disp]",
    ]
    ctx.required_counters = ["rust_encoded", "dora_encoded"]
    ver = Verifier(ctx, llvm)

    if ctx.replay_only:
        # ./check C07 --replay <dir>: re-run the single request of a replay directory
        line = open(os.path.join(ctx.replay_only, "request.txt")).read().split()
        key = json.load(open(os.path.join(ctx.replay_only, "meta.json")))["key"]
        is_dora = key.startswith("c07:dora:")
        sp = spec.derive(line[1])
        rq = Req(int(line[0]), sp, line[2] == "1", int(line[3]), line[4:])
        ctx.required_counters = ["dora_encoded" if is_dora else "rust_encoded"]
        ctx.min_distinct = 1
        if is_dora:
            by_id = {i: s for i, s in enumerate(dora_specs)}
            ids = {s.name: i for i, s in by_id.items()}
            res = run_dora(ctx, build_dora_runner(ctx, by_id), [], [rq], ids, "c07_replay")
            ver.verify("dora", [rq], res)
        else:
            res, _ = run_rust(ctx, [rq], "c07_replay")
            ver.verify("rust", [rq], res)
        return

    # ---- Rust assembler
    reqs = make_requests(ctx, rust_specs, "rust")
    results, deaths = run_rust(ctx, reqs, "c07_rust")
    for rc, r in deaths:
        if r is not None:
            ver.report("rust", r, None, "child-death", "harness process died (rc=%s) while executing this request" % rc)
        else:
            ctx.inconc("rust harness process died (rc=%s)" % rc)
    pm_rust = ver.verify("rust", reqs, results)
    t_rust = time.time() - t0

    # ---- Dora assembler: the same requests for the same-named methods (+ requests for Dora-only methods)
    pm_dora = {}
    if ctx.opts.get("dora", "1") != "0":
        t1 = time.time()
        ids = {sp.name: i for i, sp in enumerate(dora_specs)}
        by_id = {i: sp for i, sp in enumerate(dora_specs)}
        try:
            dexe = build_dora_runner(ctx, by_id)
        except (OracleError, subprocess.TimeoutExpired, build.BuildError) as e:
            ctx.inconc("dora half not run: %s" % str(e)[-1500:])
            dexe = None
        if dexe:
            dreqs, drisky = make_dora_requests(ctx, reqs, results, dora_specs)
            dres = run_dora(ctx, dexe, dreqs, drisky, ids, "c07_dora")
            pm_dora = ver.verify("dora", dreqs + drisky, dres)
            ctx.count("dora_risky_requests_run", len(drisky))
        ctx.extra["dora_wall_s"] = round(time.time() - t1, 1)

    ctx.extra.update({
        "methods": {
            "rust": {"public": len(rust_present), "instruction_methods": n_rust_instr, "covered": len(rust_specs),
                     "exercised_with_encoding": sum(1 for v in pm_rust.values() if v[0] > 0)},
            "dora": {"public": len(dora_present), "instruction_methods": n_dora_instr, "covered": len(dora_specs),
                     "exercised_with_encoding": sum(1 for v in pm_dora.values() if v[0] > 0)},
        },
        "refused_classes_rust_top": dict(sorted(((k, v) for k, v in ver.refused_classes.items() if k.startswith("rust:")),
                                                key=lambda kv: -kv[1])[:40]),
        "refused_classes_dora_top": dict(sorted(((k, v) for k, v in ver.refused_classes.items() if k.startswith("dora:")),
                                                key=lambda kv: -kv[1])[:40]),
        "dora_refused_although_rust_encoded": ver.dora_unexpected_refusals[:20],
        "refused_classes_total": len(ver.refused_classes),
        "violation_keys_suppressed_after_%d" % MAX_KEYS: ver.suppressed,
        "llvm_mc_invocations": llvm.calls,
        "rust_wall_s": round(t_rust, 1),
    })


def make_dora_requests(ctx, rust_reqs, rust_results, dora_specs):
    """Same operand sets as the Rust run for same-named methods; fresh ones for Dora-only methods.

    A refused request kills the Dora process (failed assert = trap, 2 s for the stack trace), so requests that
    are expected to be refused ("risky": refused by the Rust assembler, or implausible per asmspec.plausible for
    Dora-only methods) are only sampled and run one per process. Rust refuses r12 as index register in
    Address::array, Dora does not: those requests count as normal.
    quick tier: a covering sample (every (method, shape class incl. scale) of the Rust run once), thorough: all."""
    dnames = {sp.name: sp for sp in dora_specs}
    rust_names = {r.spec.name for r in rust_reqs}
    only = [sp for sp in dora_specs if sp.name not in rust_names]
    extra = make_requests(ctx, only, "dora-only")
    normal, risky = [], []
    seen = set()
    for r in list(rust_reqs) + extra:
        if r.spec.name not in dnames:
            continue
        st = (rust_results.get(r.id) or {}).get("st") if r.spec.name in rust_names else None
        r12_index = any(t.startswith("aa:") and t.split(":")[2] == "12" for t in r.toks)
        if st is None or r12_index:
            is_risky = not spec.plausible(r.spec, r.toks)
        else:
            is_risky = st == "refused"
        if is_risky:
            risky.append(r)
            continue
        if ctx.quick():
            k = (r.spec.name, spec.shape(r.spec, r.toks, with_scale=True))
            if k in seen:
                continue
            seen.add(k)
        normal.append(r)
    rng = ctx.rng("dora-risky")
    rng.shuffle(risky)
    # one per method first, then random ones
    picked, methods = [], set()
    for r in risky:
        if r.spec.name not in methods:
            methods.add(r.spec.name)
            picked.append(r)
    rng.shuffle(picked)
    n_risky = ctx.pick(40, 160)
    picked = picked[:n_risky] + [r for r in risky if r not in picked][:max(0, n_risky - len(picked))]
    ctx.count("dora_only_methods", len(only))
    ctx.count("dora_risky_requests_available", len(risky))
    res = []
    for r in normal + picked:
        q = Req(len(res), dnames[r.spec.name], r.avx, r.pre, r.toks)
        res.append(q)
    return res[:len(normal)], res[len(normal):]
