"""C03 -- garbage collection is invisible to programs and reclaims garbage (DESIGN.md 5 C03).

Workloads: (1) object-graph scenarios (vlib/templates/graphs.dora: lists with old->young pointers, trees with replaced subtrees,
churn, large-object arrays holding young nodes, strings, closures + trait objects, cycles, arrays of tuples/structs with interior
references, a global holding the only reference, threads exchanging nodes) whose expected output is computed independently by
vlib/graphs_mirror.py; (2) typed-generator programs with reference types, expected output from the reference interpreter;
(3) the optimizing compiler itself as a workload: compiling under GC stress must give byte-identical assembly.
Matrix: collector {zero, copy, sweep, swiper} x code generator x {default, --gc-stress, --gc-stress-minor} x TLAB on/off x
--gc-worker {1,2,8} x heap {8M,32M,128M} x young {default,1M,64M}, --gc-verify always on for swiper; sampled so that every
level of every factor appears. Oracles: expected output, defined end (no signal / runtime panic / verifier assertion / monitor
exit), no out-of-memory for small live sets; the runtime is built with the verif monitors (world-stopped, wait-list, root-scan).
"""
import json
import os

from .. import build, execu, graphs_mirror, progrun
from ..core import VERIF, scratch
from ..gen import build as gbuild
from . import c01

GCS = ("zero", "copy", "sweep", "swiper")

# (scenario, normal (n, k), stress (n, k)); stress sizes keep allocations <= ~3000
SIZES = {
    0: ((3000, 7), (120, 5)), 1: ((10, 60), (5, 6)), 2: ((120000, 16), (300, 8)), 3: ((20000, 12), (4000, 3)),
    4: ((1500, 9), (40, 4)), 5: ((300, 7), (15, 5)), 6: ((200, 9), (12, 6)), 7: ((800, 6), (30, 3)),
    8: ((4000, 13), (100, 7)), 9: ((4, 1500), (3, 30)),
}


def run_flags(r, gc, stress_ok=True):
    """A random run configuration; returns (flags string, is_stress)."""
    stress = r.choice(["", "", "--gc-stress", "--gc-stress-minor"]) if stress_ok and gc != "zero" else ""
    parts = [stress] if stress else []
    if r.random() < 0.4:
        parts.append("--disable-tlab")
    parts.append("--gc-worker=%d" % r.choice([1, 2, 8]))
    if gc == "zero":
        parts.append("--max-heap-size=256M")
    else:
        parts.append("--max-heap-size=%s" % r.choice(["8M", "32M", "128M"]))
    if gc == "swiper":
        y = r.choice(["", "1M", "64M"])
        if y:
            parts.append("--gc-young-size=" + y)
        parts.append("--gc-verify")
    return " ".join(parts), bool(stress)


def run(ctx):
    build.ensure_toolchain("rel")
    d = scratch("c03")
    tmpd = os.path.join(d, "tmp")
    os.makedirs(tmpd, exist_ok=True)
    ctx.rule = ("execution = (program, input, code generator, collector, run flags); distinct = distinct such tuple that ran to a "
                "verdict; non-trivial = its output was compared with the independently computed expectation")
    ctx.assumptions = ["the covering sample of the configuration matrix is seeded, not the full product",
                       "with TLABs on, stress collections happen at TLAB refills and slow-path allocations"]
    # ---- builds -------------------------------------------------------------------------------------------------
    src = open(os.path.join(VERIF, "vlib", "templates", "graphs.dora")).read()
    nprog = ctx.pick(3, 24)
    progs = c01.gen_programs(ctx, nprog, 16, stream="c03", feature_sets=c01.FEATURE_SETS[3:])
    sources = [("graphs", src)] + [(n, p.source()) for n, p in progs]
    built, _ = progrun.compile_all("c03/build", sources, backends=progrun.BACKENDS, gcs=GCS)
    for name, b in built.items():
        for key, r in b.errors.items():
            if r.timeout:
                ctx.inconc("compile watchdog %s %s" % (name, key))
            else:
                first = next((l for l in progrun.compile_error_text(r).splitlines() if l.startswith(("error", "fatal error")) or "panicked" in l), "")
                ctx.violation("c03:compile-failed:%s:%s:%s" % (key[0], key[1], first[:80]), "compile failed for %s %s:\n%s" % (name, key, progrun.compile_error_text(r)[-1200:]))
    # ---- jobs ---------------------------------------------------------------------------------------------------
    jobs, meta = [], {}
    nseeds = ctx.pick(1, 8)
    per_cfg = ctx.pick(2, 5)
    jid = 0
    for sc in range(10):
        for si in range(nseeds):
            for (be, gc), exe in sorted(built["graphs"].exes.items()):
                for c in range(per_cfg):
                    r = ctx.rng("cfg", jid)
                    jid += 1
                    flags, stress = run_flags(r, gc)
                    if gc == "zero" and sc == 2:
                        continue   # churn needs a collector
                    n, k = SIZES[sc][1] if (stress or gc == "zero") else SIZES[sc][0]
                    seed = ctx.seed * 1000 + si * 17 + sc
                    env = {"DORA_FLAGS": flags, "DORA_VERIF_STATS": os.path.join(d, "stats_%d.jsonl" % (jid % 64))}
                    aff = None
                    if sc == 9:
                        env["DORA_VERIF_PERTURB"] = "%d:%d" % (jid, r.choice([0, 20, 100]))
                        env["DORA_VERIF_DEADLOCK"] = "5000"
                        aff = r.choice([None, None, {0}, {0, 1}])
                    tag = ("graphs", sc, seed, n, k, be, gc, flags)
                    meta[tag] = graphs_mirror.expected(sc, seed, n, k)
                    jobs.append((tag, exe, [sc, seed, n, k], env, aff))
    # memory pressure: a young generation that dominates a small heap plus a high survival rate (promotion has to fail over
    # into to-space in the middle of a minor collection); generational collector only, no forced collections
    for si in range(ctx.pick(3, 12)):
        for (be, gc), exe in sorted(built["graphs"].exes.items()):
            if gc != "swiper":
                continue
            r = ctx.rng("tight", jid)
            jid += 1
            # sizes calibrated on the pinned tree: the live list fits (no out-of-memory) but survivors outnumber the old
            # generation's growth steps, so promotions fail over into to-space in the middle of minor collections
            heap, young, n = r.choice([("8M", "7M", r.randrange(160, 300) * 1000), ("8M", "7M", r.randrange(160, 300) * 1000),
                                       ("16M", "14M", r.randrange(320, 600) * 1000)])
            flags = "--max-heap-size=%s --gc-young-size=%s --gc-worker=%d%s%s" % (heap, young, r.choice([1, 2, 8]), " --gc-verify" if r.random() < 0.8 else "",
                                                                                   " --disable-tlab" if r.random() < 0.2 else "")
            seed = ctx.seed * 1000 + si
            k = r.choice([3, 4, 7])
            tag = ("graphs", 10, seed, n, k, be, gc, flags)
            meta[tag] = graphs_mirror.expected(10, seed, n, k)
            jobs.append((tag, exe, [10, seed, n, k], {"DORA_FLAGS": flags, "DORA_VERIF_STATS": os.path.join(d, "stats_%d.jsonl" % (jid % 64))}, None))
    by_prog = dict(progs)
    for name, p in progs:
        for (be, gc), exe in sorted(built[name].exes.items()):
            for c in p.cases:
                r = ctx.rng("pcfg", jid)
                jid += 1
                if r.random() > ctx.pick(0.5, 0.8):
                    continue
                flags, stress = run_flags(r, gc)
                tag = (name, c.idx, tuple(c.inputs), 0, 0, be, gc, flags)
                meta[tag] = c.expect
                jobs.append((tag, exe, [c.idx] + list(c.inputs), {"DORA_FLAGS": flags, "DORA_VERIF_STATS": os.path.join(d, "stats_%d.jsonl" % (jid % 64))}, None))
    # ---- run + judge --------------------------------------------------------------------------------------------
    slow = []
    for tag, o in progrun.run_cases(jobs, timeout=ctx.pick(240, 600)):
        name, a, b, n, k, be, gc, flags = tag
        ctx.count("runs")
        ctx.count("gc:" + gc)
        ctx.count("backend:" + be)
        for f in flags.split():
            ctx.count("flag:" + f.split("=")[0] + ("=" + f.split("=")[1] if "=" in f else ""))
        cfg = "%s %s DORA_FLAGS='%s'" % (be, gc, flags)
        if o.cls == "timeout":
            ctx.inconc("run watchdog: %s %s %s" % (name, a, cfg))
            continue
        slow.append((round(o.wall, 1), str(name), str(a), cfg))
        ctx.observe(tag)
        exp = meta[tag]
        got_out = o.stdout.decode("utf-8", "replace")
        if name == "graphs":
            exp_out, exp_kind = exp, "ok(0)"
            what = "scenario %s(seed=%s, n=%s, k=%s)" % (graphs_mirror.NAMES[a], b, n, k)
            ctx.count("scenario:" + graphs_mirror.NAMES[a])
            skey = "graphs:" + graphs_mirror.NAMES[a]
        else:
            exp_out, exp_kind, _ = exp
            what = "generated program %s case %s inputs %s" % (name, a, list(b))
            skey = "generated"
        stress = "stress" if "--gc-stress" in flags else "nostress"
        if not o.defined() or o.key() != exp_kind:
            first = next((l for l in o.stderr.decode("utf-8", "replace").splitlines() if "panicked at" in l or "VERIF-MONITOR" in l or "assert" in l), o.first_err())
            import re
            ctx.violation("c03:outcome:%s:%s:%s:%s:%s" % (skey, be, gc, o.key(), re.sub(r"\d+", "N", first)[:90]),
                          "%s under %s ended %s (expected %s)\nstderr: %s" % (what, cfg, o.key(), exp_kind, o.stderr.decode("utf-8", "replace")[-1200:]),
                          files={"program.dora": src if name == "graphs" else by_prog[name].source(), "cmd.txt": "DORA_FLAGS='%s' <exe %s %s> %s\n" % (flags, be, gc, [a, b, n, k])})
        elif got_out != exp_out:
            ctx.violation("c03:output:%s:%s:%s:%s" % (skey, be, gc, stress),
                          "%s under %s printed %r, expected %r" % (what, cfg, got_out[-400:], exp_out[-400:]),
                          files={"program.dora": src if name == "graphs" else by_prog[name].source(), "cmd.txt": "DORA_FLAGS='%s' <exe %s %s> %s\n" % (flags, be, gc, [a, b, n, k])})
        elif ctx.counters["runs"] % 211 == 1:
            ctx.sample({"what": what, "config": cfg, "stdout": got_out[:160]}, limit=6)
    ctx.extra["slowest_runs"] = sorted(slow, reverse=True)[:8]
    # ---- hook statistics (what the monitors actually observed) ----------------------------------------------------
    tot = {}
    for fn in os.listdir(d):
        if fn.startswith("stats_"):
            for line in open(os.path.join(d, fn), errors="replace"):
                try:
                    j = json.loads(line)
                except ValueError:
                    continue
                for k2, v in j.items():
                    if isinstance(v, int):
                        tot[k2] = tot.get(k2, 0) + v
    for k2 in ("GC_PERFORMED", "GC_COALESCED", "STW_OPS", "STW_OPS_MULTI", "ROOTSCAN_FRAMES", "ROOTSCAN_SLOTS", "ROOTSCAN_DISTINCT_MAPS", "WAITLIST_CHECKS",
               "PARK_SLOW", "UNPARK_SLOW_WAITS", "SAFEPOINT_SLOW", "THREADS_SPAWNED", "MUTATOR_CHECKS", "BLOCK_CALLS", "JOIN_CALLS"):
        ctx.counters["hook_" + k2] = tot.get(k2, 0)
    # ---- the optimizing compiler as a GC workload ----------------------------------------------------------------
    comp = [(n, p) for n, p in progs[:ctx.pick(2, 8)]]

    def asm(j):
        name, flags, tagname = j
        out = os.path.join(d, "asm_%s_%s" % (name, tagname))
        sp = os.path.join(d, "build", name + ".dora")
        o = execu.run_cmd([build.dora("rel"), "compile", "-S", sp, "-o", out], timeout=1200, env={"DORA_FLAGS": flags, "TMPDIR": tmpd})
        data = None
        if os.path.exists(out + ".s"):
            data = open(out + ".s", "rb").read()
            os.unlink(out + ".s")
        return j, o, data

    cjobs = []
    for name, p in comp:
        cjobs.append((name, "", "plain"))
        cjobs.append((name, "--gc-stress-minor --gc-verify", "stressminor"))
        cjobs.append((name, "--gc-young-size=1M --gc-worker=8 --gc-verify", "young1m"))
    ref = {}
    res = execu.pmap(asm, cjobs)
    for (name, flags, tagname), o, data in res:
        if tagname == "plain":
            ref[name] = data
    for (name, flags, tagname), o, data in res:
        ctx.count("compiler_workload_runs")
        if o.cls == "timeout":
            ctx.inconc("compiler-under-stress watchdog: %s %s" % (name, flags))
            continue
        if tagname == "plain":
            continue
        ctx.observe(("compiler", name, flags))
        if not (o.cls == "ok" and o.status == 0 and data is not None):
            ctx.violation("c03:compiler-under-gc:%s:%s" % (tagname, o.key()), "optimizing compiler with DORA_FLAGS='%s' failed on %s: %s\n%s" % (
                flags, name, o.key(), o.stderr.decode("utf-8", "replace")[-1000:]), files={"program.dora": dict(comp)[name].source()})
        elif ref.get(name) is not None and data != ref[name]:
            ctx.violation("c03:compiler-output-differs:%s" % tagname, "assembly emitted by the optimizing compiler under DORA_FLAGS='%s' differs from the unstressed run for %s" % (flags, name),
                          files={"program.dora": dict(comp)[name].source()})
    ctx.required_counters = ["hook_GC_PERFORMED", "hook_ROOTSCAN_DISTINCT_MAPS", "gc:copy", "gc:sweep", "gc:swiper", "gc:zero", "flag:--gc-stress", "flag:--gc-stress-minor",
                             "flag:--disable-tlab", "flag:--gc-worker=8", "scenario:threads", "scenario:pressure", "compiler_workload_runs"]
    ctx.min_distinct = 50
