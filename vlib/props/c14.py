"""C14 -- a trap report names what failed and where (DESIGN.md 5 C14).

Workload: template-generated batch programs (vlib/trapgen.py). In every case exactly one operation of a generator-chosen
trapping kind fails at a generator-known line inside a generator-known call chain; one statement per line.

Oracle (generator knowledge + equality between the two code generators and the collectors):
  * exit status == 101 + kind (1 for fatal errors) and the first stderr line is the kind's message;
  * stderr holds nothing but the message and frame lines `    <name> (<file>:<line>:<col>)`;
  * frame rule, established on the unchanged tree: the trace is *exactly* the generator's chain, innermost first -- no
    frame is missing, none is added, also when the optimizing generator inlined a callee. User-file frames are compared
    by display name and line (closures: `$Lambda<n>Env` with any n); frames inside the standard library that the chain is
    known to pass through (closure thunk in std/callable.dora, get_or_panic, Vec get) are compared by display name and
    file, their line is not predicted; a trap on a spawned thread lists the thread's frames only;
  * stderr is byte-identical for both code generators and both collectors (same source file path, nothing normalised);
  * stdout through a pipe == everything printed before the trap (incl. a final `print` without newline, > 8 KiB output);
  * control: the same case with the safe operand pair ends with status 0 and the complete expected output.
"""
import os

from .. import build, execu, progrun, trapgen

GCS = ("swiper", "copy")
CONTROL_GC = "copy"                          # control runs (safe operands) only on one collector: they are about the generator's bookkeeping
RUN_ENV = {"DORA_FLAGS": "--gc-worker=2"}    # fewer collector threads: process start-up dominates the cost of a case


def plan_fn(ctx, prog_index, ncases):
    """Systematic (kind x shape) coverage with a seed-dependent rotation; everything else random."""
    r0 = ctx.rng("rot", 0)
    rot_k, rot_s, rot_p = r0.randrange(1000), r0.randrange(1000), r0.randrange(1000)
    nk, ns, np_ = len(trapgen.KINDS), len(trapgen.SHAPES), len(trapgen.POSITIONS)

    def f(g, k):
        n = prog_index * ncases + k
        kind = trapgen.KINDS[(n + rot_k) % nk]
        shape = trapgen.SHAPES[(n // nk + rot_s) % ns]
        pos = trapgen.POSITIONS[(n // (nk * ns) * 7 + n % (nk * ns) + rot_p) % np_]   # 7 is coprime to the number of positions
        return g.plan_case(k, kind=kind, shape=shape, position=pos)
    return f


def frame_problem(case, frames, user_file):
    """-> None or (what, detail class, text)"""
    exp = case.frames
    nstd = len(case.op.std_frames)
    for i, e in enumerate(exp):
        if i >= len(frames):
            what = "first-frame" if i <= nstd else "chain"
            return what, "missing", "frame %d missing: expected %s, trace has %d frames" % (i, e.show(), len(frames))
        g = frames[i]
        if not e.matches(g[0], g[1], g[2], user_file):
            what = "first-frame" if i <= nstd else "chain"
            if e.std_file is not None:
                cls = "std"
            elif (e.regex and trapgen.re.fullmatch(e.name, g[0])) or (not e.regex and e.name == g[0]):
                cls = "line" if g[1] == user_file else "file"
            else:
                cls = "name"
            return what, cls, "frame %d: expected %s, got %s (%s:%d:%d)" % (i, e.show(), g[0], g[1], g[2], g[3])
    if len(frames) > len(exp):
        g = frames[len(exp)]
        return "chain", "extra", "unexpected extra frame %d: %s (%s:%d)" % (len(exp), g[0], g[1], g[2])
    return None


def stdout_class(got, exp):
    if exp.startswith(got):
        lost = exp[len(got):]
        return "lost-partial-line" if "\n" not in lost else "lost-lines"
    if got.startswith(exp):
        return "extra"
    return "different"


def check_program(ctx, name, prog, built, results):
    b = built[name]
    user_file = b.src_path
    for key, r in b.errors.items():
        if r.timeout:
            ctx.inconc("compile watchdog: %s %s" % (name, key))
            continue
        text = progrun.compile_error_text(r)
        first = next((l for l in text.splitlines() if l.startswith(("error", "fatal error")) or "panicked at" in l), text[:100])
        ctx.violation("c14:compile-rejected:%s:%s" % (key[0], trapgen.re.sub(r"\d+", "N", first)[:120]),
                      "generated program rejected or compiler failed (%s):\n%s" % (key, text[-1500:]),
                      files={"program.dora": prog.source()})
    for c in prog.cases:
        kind, shape, pos = c.kind, c.shape(), c.position()
        errs = {}
        for key in sorted(b.exes, key=str):
            be, gc = key
            o = results.get((name, c.idx, key, "fail"))
            if o is None:
                continue
            if o.cls == "timeout":
                ctx.inconc("run watchdog: %s case %d %s" % (name, c.idx, key))
                continue
            ctx.count("runs")
            ctx.count("kind:" + kind)
            ctx.count("shape:" + shape)
            ctx.count("position:" + pos)
            ctx.count("backend:%s/%s" % (be, gc))
            ctx.count("depth:%d" % len(c.links))
            if c.lit:
                ctx.count("literal_operand_runs")
            if be == "boots":
                ctx.count("boots_force_inlined_links", sum(1 for l in c.links if l.shape.endswith("_force")))
                ctx.count("boots_never_inlined_links", sum(1 for l in c.links if l.shape.endswith("_never")))
            ctx.observe((kind, shape, pos, be))
            err = o.stderr.decode("utf-8", "replace")
            out = o.stdout.decode("utf-8", "replace")
            cmd = "%s %s" % (os.path.basename(b.exes[key]), " ".join(str(x) for x in c.argv()))
            files = {"program.dora": prog.source(), "case.json": trapgen.json_dumps(c.describe()), "stderr.txt": err[:20000]}
            tag = "%s:%s:%s" % (kind, shape, be)
            head = "%s case %d (%s %s, position %s, op %s%s, operands %s) with %s/%s" % (
                name, c.idx, kind, shape, pos, c.op.name, " literal" if c.lit else "", list(c.fail), be, gc)
            first, frames, other = trapgen.parse_trace(err)
            if o.cls in ("signal", "rust_panic", "verif_monitor"):
                ctx.violation("c14:crash:%s:%s" % (tag, o.key()), "%s: ended with %s instead of the trap report\n%s" % (head, o.key(), err[:1500]),
                              files=files, cmd=cmd)
                continue
            if o.status != c.status or first != c.message:
                ctx.violation("c14:status:%s:got=%s" % (tag, o.key()),
                              "%s: expected exit status %d and message %r, got status %s and first line %r\n%s" % (
                                  head, c.status, c.message, o.status, first, err[:1500]), files=files, cmd=cmd)
                continue
            errs[key] = err
            if other:
                ctx.violation("c14:stderr-noise:%s" % tag, "%s: stderr holds lines that are neither the message nor a frame: %r" % (head, other[:5]),
                              files=files, cmd=cmd)
            fp = frame_problem(c, frames, user_file)
            ctx.count("frames_compared", min(len(frames), len(c.frames)))
            if fp:
                what, cls, text = fp
                ctx.violation("c14:%s:%s:%s" % (what, cls, tag),
                              "%s: %s\nfailing operation at line %s; expected frames (innermost first):\n  %s\nreport:\n%s" % (
                                  head, text, c.op_line, "\n  ".join(f.show() for f in c.frames), err[:2500]), files=files, cmd=cmd)
            ctx.count("stdout_bytes_compared", len(c.expect_out))
            if c.expect_out and not c.expect_out.endswith("\n"):
                ctx.count("stdout_final_partial_line_cases")
            if len(c.expect_out) > 8192:
                ctx.count("stdout_over_8k_cases")
            if out != c.expect_out:
                files2 = dict(files)
                files2["stdout.txt"] = out[-20000:]
                files2["expected_stdout.txt"] = c.expect_out[-20000:]
                ctx.violation("c14:stdout:%s:%s" % (stdout_class(out, c.expect_out), tag),
                              "%s: stdout through a pipe differs from what was printed before the trap: got %d bytes ending %r, expected %d bytes ending %r" % (
                                  head, len(out), out[-60:], len(c.expect_out), c.expect_out[-60:]), files=files2, cmd=cmd)
            # control experiment
            o2 = results.get((name, c.idx, key, "safe"))
            if o2 is not None:
                if o2.cls == "timeout":
                    ctx.inconc("run watchdog (control): %s case %d %s" % (name, c.idx, key))
                else:
                    ctx.count("control_runs")
                    out2 = o2.stdout.decode("utf-8", "replace")
                    ok = (o2.cls == "ok" and o2.status == 0 and o2.stderr == b"" and out2.startswith(c.expect_out_safe + "r=")
                          and out2.endswith("\n") and "\n" not in out2[len(c.expect_out_safe):-1])
                    if not ok:
                        ctx.violation("c14:control:%s:got=%s" % (tag, o2.key()),
                                      "%s: control run with the safe operands %s did not end with status 0 and the complete expected output: %s\nstdout tail %r\nexpected tail %r\nstderr %s" % (
                                          head, list(c.safe), o2.key(), out2[-200:], c.expect_out_safe[-200:], o2.stderr.decode("utf-8", "replace")[:800]),
                                      files=files, cmd="%s %s" % (os.path.basename(b.exes[key]), " ".join(str(x) for x in c.argv(True))))
        # same report from both code generators and both collectors
        keys = sorted(errs, key=str)
        if len(keys) >= 2:
            ctx.count("report_comparisons", len(keys) - 1)
            ref = keys[0]
            for k2 in keys[1:]:
                if errs[k2] != errs[ref]:
                    what = "backend-diff" if k2[0] != ref[0] else "collector-diff"
                    ctx.violation("c14:%s:%s:%s:%s" % (what, kind, shape, "%s-vs-%s" % (ref[0], k2[0])),
                                  "%s case %d (%s %s %s): stderr differs between %s and %s\n--- %s\n%s\n--- %s\n%s" % (
                                      name, c.idx, kind, shape, pos, ref, k2, ref, errs[ref][:1200], k2, errs[k2][:1200]),
                                  files={"program.dora": prog.source(), "case.json": trapgen.json_dumps(c.describe())},
                                  cmd="case %d argv %s" % (c.idx, c.argv()))
                    break
        if c.idx % 13 == 0:
            d = c.describe()
            d["program"] = name
            d["argv"] = [str(x) for x in c.argv()]
            d["expected_stdout_bytes"] = len(c.expect_out)
            ctx.sample(d, limit=6)


def remove_executables(d):
    """The executables are 11 MB each: keep only the sources in the scratch directory."""
    for f in os.listdir(d):
        if not f.endswith(".dora"):
            try:
                os.unlink(os.path.join(d, f))
            except OSError:
                pass


def run(ctx):
    build.ensure_toolchain("rel")
    d = None
    nprog = int(ctx.opts.get("programs", ctx.pick(10, 100)))
    ncases = int(ctx.opts.get("cases", 36))
    ctx.rule = ("case = one generated function chain (1-5 links of callee shapes) in which exactly one operation of a chosen trap kind fails at a "
                "generator-known line, run on one code generator and collector; distinct = distinct (trap kind, shape of the failing "
                "function, position of the failing operation, code generator); non-trivial = the executable ran and its exit status, message, "
                "complete frame list and stdout were compared with the generator's expectation")
    ctx.assumptions = [
        "trap kinds NIL, CAST and ILLEGAL cannot be raised from source on this tree (no nil value, no failing cast, enum payload reads are "
        "guarded by the front end) and are not covered; STACK_OVERFLOW and OOM belong to C13",
        "the number n in closure display names ($Lambda<n>Env) and line/column of frames inside the standard library are not predicted",
        "columns are only compared between the two code generators, not predicted",
    ]
    progs = []
    for i in range(nprog):
        p = trapgen.generate(ctx.rng("prog", i), ncases, plans_fn=plan_fn(ctx, i, ncases))
        progs.append(("t%03d" % i, p))
    ctx.count("cases_generated", sum(len(p.cases) for _, p in progs))
    # compile in slices so that scratch space stays small and the machine is shared fairly
    slice_n = 12
    for lo in range(0, len(progs), slice_n):
        part = progs[lo:lo + slice_n]
        built, d = progrun.compile_all("c14", [(n, p.source()) for n, p in part], gcs=GCS)
        jobs = []
        for name, p in part:
            for key, exe in built[name].exes.items():
                for c in p.cases:
                    jobs.append(((name, c.idx, key, "fail"), exe, c.argv(), RUN_ENV, None))
                    if not c.lit and key[1] == CONTROL_GC:
                        jobs.append(((name, c.idx, key, "safe"), exe, c.argv(True), RUN_ENV, None))
        results = dict(progrun.run_cases(jobs, timeout=120))
        for name, p in part:
            check_program(ctx, name, p, built, results)
    if d and not ctx.violations:
        remove_executables(d)
    ctx.extra["trap_kinds_not_reachable_from_source"] = trapgen.UNREACHABLE_KINDS
    ctx.extra["collectors"] = list(GCS)
    ctx.required_counters = ["control_runs", "report_comparisons", "stdout_final_partial_line_cases", "stdout_over_8k_cases",
                             "literal_operand_runs"] + ["kind:" + k for k in trapgen.KINDS]
    ctx.min_distinct = 50
