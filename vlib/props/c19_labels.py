"""C19 part 2: label sets of emitted assembly. Filled in together with the artifact checker (C10)."""


def run(ctx):
    try:
        from ..artifacts import labels_check
    except ImportError:
        ctx.count("label_check_skipped_no_artifact_checker")
        return
    labels_check(ctx)
