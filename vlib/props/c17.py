"""C17 -- formatting never changes a program and is stable (DESIGN.md 5 C17).

Oracle (harness/vh-text `format`): no panic; output parses; skeleton (node kinds + code tokens, optional
trailing commas removed) identical; comment multiset identical; format(format(x)) == format(x).
Inputs: every repository .dora file that parses + layout mutants (re-spacing, comment insertion at token
boundaries, whitespace insertion, line joining/splitting) x line widths {1,20,40,60,90,120,1000}.
"""
from .. import build, inproc
from .c16 import report


def run(ctx):
    build.ensure_harness(["vh-text"])
    count = ctx.pick(12000, 250000)
    widths = ctx.pick(3, 7)
    ctx.rule = ("case = (text, width); even cases walk the repository corpus in order, odd cases are layout mutants of a "
                "random small corpus file; each text is formatted at %d of the widths {1,20,40,60,90,120,1000}; "
                "distinct = distinct (text hash, width) that was accepted by the formatter (input parsed without errors)" % widths)
    ctx.assumptions = ["'optional trailing separators' = a COMMA directly before ) ] } or the closing | of a lambda parameter list",
                       "inputs with parse errors are outside the property and skipped (counted)"]
    r = inproc.run_sharded("vh-text", "format", ctx.seed, count, "c17", kv={"widths": widths}, timeout=ctx.pick(900, 3000))
    report(ctx, r, "c17", "formatter")
