"""C17 -- formatting never changes a program and is stable (DESIGN.md 5 C17).

Oracle (harness/vh-text `format`, see the head of harness/vh-text/src/format.rs): no panic (this includes the
formatter's own re-parse assertion); output parses; skeleton tree (node kinds + code tokens, optional separators
removed) identical -- if only identical modulo the three by-design canonicalisations (use-declaration order,
use-group order/one-entry collapse, modifier order) the case is reported under one of seven fixed
`c17:reordered:*` keys; comment multiset identical (a lost comment is keyed by its structural position class);
format(format(x)) == format(x) (keyed by the layout change and the token classes around it).

Inputs: every repository .dora file that parses + layout mutants of random small repository files
(re-spacing, whitespace insertion, line joining, line splitting, comment insertion at structural positions)
x line widths {1,20,40,60,90,120,1000}.
"""
import os

from .. import build, inproc
from .c16 import report


def run(ctx):
    build.ensure_harness(["vh-text"])
    count = ctx.pick(12000, 160000)
    widths = ctx.pick(3, 7)
    ctx.rule = ("case = (text, width); even cases walk the repository corpus in order, odd cases are layout mutants of a "
                "random small corpus file (one of: re-spacing of every blank run, blank insertion at token boundaries, "
                "line joining, line splitting, comment insertion); each text is formatted at %d of the widths "
                "{1,20,40,60,90,120,1000} (rotating, all widths covered); distinct = distinct (text hash, width) accepted "
                "by the formatter (input parsed without errors); every accepted case is non-trivial (all five oracle "
                "clauses are evaluated on it)" % widths)
    ctx.assumptions = [
        "'optional trailing separators' = a COMMA in a LIST_ITEM directly before the closing ) ] } or closing | of its "
        "list, and a COMMA in a MATCH_EXPR before the closing } or behind an arm whose value is block/if/for/while/match "
        "(the parser only `eat`s it there); every other token must be passed through in order",
        "by-design reorderings (use declarations, use groups, modifiers) are reported as known findings under seven "
        "fixed keys, not tolerated silently; a difference that survives all three canonicalisations is a violation",
        "inputs with parse errors are outside the property and skipped (counted)",
        "comment insertion is narrowed to structural positions (before/after statements, elements, match arms, "
        "fields/variants, list items, behind `{`, in front of `}` and `else`; own-line, trailing and inline styles; "
        "not: a trailing block comment behind a list item's comma). Comments at *every* token boundary "
        "(C17_KV=wide=1) hit several unfixed formatter defects whose keys do not form a closed set; see "
        "harness/vh-text/src/format.rs COMMENT_SITES",
        "behaviour of formatted runnable programs is not executed here (an identical skeleton is an identical token "
        "stream for the compiler)",
    ]
    kv = {"widths": widths}
    # investigation only (never set by a tier): C17_KV="wide=1" (comment at every token boundary),
    # "cmeasure=1" (one comment site class per mutant, reported in the family name), "basefilter=<text>"
    # (mutants of the files whose path contains <text>)
    for item in os.environ.get("C17_KV", "").split():
        k, _, v = item.partition("=")
        kv[k] = v
    r = inproc.run_sharded("vh-text", "format", ctx.seed, count, "c17", kv=kv, timeout=ctx.pick(900, 3000))
    if not kv.keys() - {"widths"}:
        ctx.required_counters = ["family:corpus", "family:mutant-respace", "family:mutant-space-insert",
                                 "family:mutant-line-join", "family:mutant-line-split", "family:mutant-comments",
                                 "width:1", "width:1000"]
    report(ctx, r, "c17", "formatter")
