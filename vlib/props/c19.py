"""C19 -- distinct functions get distinct, valid linker symbols (DESIGN.md 5 C19).

Part 1 (harness/vh-text `symbols`): generated display names and clusters of one-character neighbours through the
real mangle_name / mangle_name_with_max_len / demangle_name: alphabet, prefix, cap, injectivity (full and capped),
round trip, determinism (two processes must produce the same digest).
Part 2 (artifacts): label sets of .s files emitted by the real compiler: no duplicate label, alphabet, cap,
every call/reloc target defined exactly once (in the .s or in the runtime libraries).
"""
import os
import re
import subprocess

from .. import build, inproc, execu
from ..core import REPO, scratch


def source_cap():
    src = open(os.path.join(REPO, "dora-compiler/src/aot_compile.rs")).read()
    m = re.search(r"AOT_SYMBOL_MAX_LEN\s*:\s*usize\s*=\s*(\d+)", src)
    if m:
        return int(m.group(1))
    for root, _, files in os.walk(os.path.join(REPO, "dora-compiler/src")):
        for f in files:
            m = re.search(r"AOT_SYMBOL_MAX_LEN\s*:\s*usize\s*=\s*(\d+)", open(os.path.join(root, f)).read())
            if m:
                return int(m.group(1))
    return None


def run(ctx):
    build.ensure_harness(["vh-text"])
    count = ctx.pick(40000, 1200000)
    ctx.rule = ("case = cluster of a generated display name and 4-11 one-character neighbours (separators of display names, "
                "escape look-alikes, multi-byte, prefixes of 150-5000 chars); distinct = distinct mangled symbols observed; "
                "plus label sets of emitted .s files")
    r = inproc.run_sharded("vh-text", "symbols", ctx.seed, count, "c19", timeout=ctx.pick(2400, 4800))
    for sh in r.timeouts:
        ctx.inconc("shard %d hit the wall-clock watchdog" % sh)
    for o in r.bad:
        ctx.violation(o["key"], o["what"], files={"name.txt": o.get("input", "")})
    for d in r.deaths:
        ctx.violation("c19:child-death:rc=%s" % d["rc"], "harness child died: %s" % d["log"][-300:], files={"names.txt": d["input"]})
    ctx.counters.update({k: v for k, v in r.stats.items() if isinstance(v, (int, float))})
    ctx.evaluations += int(r.stats.get("names", 0))
    n = int(r.stats.get("distinct_symbols", 0))
    ctx.distinct.update(range(n))  # measured by the harness: distinct full symbols per shard (shards use disjoint seeds)
    cap = source_cap()
    ctx.extra["symbol_cap_in_source"] = cap
    if cap != 200:
        ctx.inconc("AOT_SYMBOL_MAX_LEN in the source is %r, harness assumes 200" % cap)
    # determinism across processes: shard 0 of a small run twice, digests must agree
    a = inproc.run_sharded("vh-text", "symbols", ctx.seed, 2000, "c19_det_a", nshards=1)
    b = inproc.run_sharded("vh-text", "symbols", ctx.seed, 2000, "c19_det_b", nshards=1, env={"RUST_MIN_STACK": "9000000"})
    da, db = a.stats.get("digest@list"), b.stats.get("digest@list")
    ctx.count("cross_process_digest_compared")
    if not da or da != db:
        ctx.violation("c19:cross-process", "two processes mangled the same 2000 name clusters differently: %s vs %s" % (da, db))
    ctx.sample({"name": "std::callable::Fn16[Int64, Int64, ...]::call (generated clusters)", "digest_run_a": da, "digest_run_b": db})
    from . import c19_labels
    c19_labels.run(ctx)
