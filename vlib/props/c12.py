"""C12 -- parallel collection phases finish exactly when all work is done (DESIGN.md 5 C12).

harness/vh-proto `term`: 2-4 workers run the loop shape of MarkingTask::run (own deque -> injector -> steal ->
try_terminate) over crossbeam deques with unique items; the REAL Terminator decides. Monitors: outstanding == 0 when a
worker is told the phase is complete, every reachable item processed exactly once, payload handed over, bounded empty
spins, all-asleep detector (every live worker inside condvar.wait and no notification issued), Miri (tree borrows because
of crossbeam-epoch) for data races / exact deadlock. Real collections with 1/2/8 workers are exercised by C03's runs.
"""
from .. import proto


def run(ctx):
    exe = proto.ensure_native()
    ctx.rule = ("one execution = one phase (round) of a worker pool over a seeded work graph (chain / wide / mixed / late single item) "
                "under a perturbation seed and affinity set, or one Miri schedule seed; distinct = distinct vector of terminator "
                "event counters (sleeps, wake-ups, fast-path returns, notifications)")
    ctx.assumptions = ["interleavings are sampled, not enumerated", "the work pool is abstract (unique integer items), the terminator is the real one"]
    aff = proto.affinity_sets()
    jobs = []
    nruns = ctx.pick(160, 2400)
    for i in range(nruns):
        r = ctx.rng("native", i)
        shape = i % 4
        items = {0: r.choice([300, 3000]), 1: r.choice([2000, 20000]), 2: r.choice([5000, 50000]), 3: r.choice([40, 120])}[shape]
        params = {"seed": ctx.seed * 100003 + i, "threads": r.choice([2, 3, 4, 4]), "shape": shape, "items": items,
                  "rounds": r.choice([5, 20]) if shape != 3 else 2, "perturb": r.choice([0, 100, 300, 600])}
        jobs.append(("term", params, aff[i % len(aff)]))
    res = proto.run_native(exe, jobs, timeout=ctx.pick(180, 300))
    ok = proto.judge_native(ctx, "C12", res, ["processed"])
    ctx.count("native_runs_conclusive", ok)
    nscripts = ctx.pick(4, 60)
    per = ctx.pick(24, 96)
    mjobs = []
    for k in range(nscripts):
        r = ctx.rng("miri", k)
        shape = k % 4
        params = {"seed": ctx.seed * 7919 + k, "threads": r.choice([2, 3, 3, 4]), "shape": shape, "items": r.choice([6, 10, 14]) if shape != 1 else 13,
                  "perturb": r.choice([0, 300])}
        lo = r.randrange(0, 1 << 20)
        mjobs.append(("term", params, (lo, lo + per), True, r.choice(["0.05", "0.1", "0.3", "0.5"])))
    proto.miri_batch(ctx, "C12", mjobs)
    if not ctx.quick():
        tj = []
        for i in range(48):
            r = ctx.rng("tsan", i)
            tj.append(("term", {"seed": ctx.seed * 31337 + i, "threads": r.choice([2, 3, 4]), "shape": i % 4, "items": r.choice([300, 3000]), "rounds": 3, "perturb": r.choice([0, 200])}))
        proto.run_tsan(ctx, "C12", tj)
    ctx.required_counters = ["TERMINATOR_SLEEPS", "TERMINATOR_WAKEUPS", "TERMINATOR_FASTPATH", "TERMINATOR_TERMINATED", "miri_schedules_completed"]
    ctx.min_distinct = 20
