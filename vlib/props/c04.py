"""C04 -- no managed thread runs while the world is stopped (DESIGN.md 5 C04).

The REAL stop_the_world / park / unpark / barrier / add_thread / remove_current_thread / join code is driven by
harness/vh-proto `stw`: scripted threads over {busy mutator with polls, native call, stop-the-world request, forced and
unforced collection request (coalescing), spawn thread, join, exit}. Monitors: H3 world-stopped monitor inside the
runtime (thread states at start/end of every operation, depth == 1, mutator_check at every un-park), harness flags
(MUTATING / closure overlap), bookkeeping (planned == completed operations; requested == run + coalesced), all-blocked
detector (logical deadlock verdict). Modes: native stress (perturbation seeds x CPU affinity sets) and Miri many-seeds
(data races on the scenario heap, exact deadlock verdict).
"""
from .. import proto


def run(ctx):
    exe = proto.ensure_native()
    ctx.rule = ("one execution = one scripted run (2-4 initial threads, random op scripts, threads spawn further threads) under a "
                "perturbation seed and an affinity set, or one Miri schedule seed; distinct = distinct hash of the global order of "
                "protocol events (poll slow path, closure start/end, spawn, exit, native call, join)")
    ctx.assumptions = ["interleavings are sampled (seeded perturbation, affinity, Miri scheduler), not enumerated",
                       "the safepoint poll of generated code is modelled by reading the thread-state byte as compiled code does"]
    aff = proto.affinity_sets()
    jobs = []
    nruns = ctx.pick(96, 1200)
    for i in range(nruns):
        r = ctx.rng("native", i)
        params = {"seed": ctx.seed * 100003 + i, "threads": r.choice([2, 3, 4, 4]), "ops": r.choice([200, 600, 1500]),
                  "perturb": r.choice([0, 50, 200, 500])}
        jobs.append(("stw", params, aff[i % len(aff)]))
    res = proto.run_native(exe, jobs, timeout=ctx.pick(180, 300))
    ok = proto.judge_native(ctx, "C04", res, ["done_ops", "stw_requested", "stw_closures", "spawned"])
    ctx.count("native_runs_conclusive", ok)
    # Miri: small scripts, many schedule seeds
    nscripts = ctx.pick(4, 48)
    per = ctx.pick(24, 64)
    mjobs = []
    for k in range(nscripts):
        r = ctx.rng("miri", k)
        params = {"seed": ctx.seed * 7919 + k, "threads": r.choice([2, 3, 3, 4]), "ops": r.choice([5, 6, 8]), "perturb": r.choice([0, 300])}
        lo = r.randrange(0, 1 << 20)
        mjobs.append(("stw", params, (lo, lo + per), False, r.choice(["0.05", "0.1", "0.3", "0.5"])))
    proto.miri_batch(ctx, "C04", mjobs)
    if not ctx.quick():
        tj = []
        for i in range(48):
            r = ctx.rng("tsan", i)
            tj.append(("stw", {"seed": ctx.seed * 31337 + i, "threads": r.choice([2, 3, 4]), "ops": r.choice([200, 600]), "perturb": r.choice([0, 200])}))
        proto.run_tsan(ctx, "C04", tj)
    ctx.required_counters = ["PARK_SLOW", "UNPARK_SLOW_WAITS", "SAFEPOINT_SLOW", "GC_COALESCED", "THREADS_SPAWNED", "JOIN_WAITED",
                             "STW_OPS_MULTI", "MUTATOR_CHECKS", "miri_schedules_completed"]
    ctx.min_distinct = 20
