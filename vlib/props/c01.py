"""C01 -- compiled programs behave exactly as the language semantics prescribe (DESIGN.md 5 C01).

Oracle: the reference interpreter of vlib/gen (evaluates the generator's own typed IR; never parses Dora, shares no code with
the implementation). For every case of every generated batch program, the executable built by `dora compile` with either
code generator must print exactly the expected bytes, end with the expected exit status / trap kind, and print the expected
first stderr line (trap message).
"""
import os

from .. import build, execu, progrun
from ..gen import build as gbuild


FEATURE_SETS = [
    ("loops", "wrapping", "shift", "match_int"),
    ("loops", "wrapping", "shift", "match_int", "float", "char_u8", "string"),
    ("loops", "wrapping", "float", "string", "tuple", "struct", "enum", "option", "letpattern", "manyargs", "recursion"),
    ("loops", "wrapping", "shift", "string", "tuple", "struct", "class", "enum", "option", "array", "vec", "global", "recursion"),
    ("loops", "float", "string", "tuple", "struct", "class", "enum", "option", "array", "lambda", "trait", "traitobj", "generic", "global", "manyargs"),
    gbuild.ALL_FEATURES,
]


def gen_programs(ctx, nprog, ncases, stream="prog", feature_sets=FEATURE_SETS):
    progs = []
    for i in range(nprog):
        r = ctx.rng(stream, i)
        feats = feature_sets[i % len(feature_sets)]
        g = gbuild.Gen(r, feats)
        p = g.program(ncases, argv_mode=(i % 2 == 0))
        progs.append(("p%03d" % i, p))
    return progs


def shape_hash(case):
    import re
    return hash(re.sub(r"\d+", "N", case.fn.body.src("")))


def check_programs(ctx, progs, dirname, backends=progrun.BACKENDS, prop="c01"):
    built, d = progrun.compile_all(dirname, [(n, p.source()) for n, p in progs], backends=backends)
    jobs = []
    for name, p in progs:
        b = built[name]
        for key, r in b.errors.items():
            if r.timeout:
                ctx.inconc("compile watchdog: %s %s" % (name, key))
                continue
            text = progrun.compile_error_text(r)
            import re
            sig = progrun.crash_signature(text)
            lines = [l for l in text.splitlines() if l.strip()]
            first = sig or next((l for l in lines if l.startswith("error")), lines[0] if lines else "")[:160]
            ctx.violation("%s:compile-rejected:%s:%s" % (prop, key[0], re.sub(r"\d+", "N", first)),
                          "well-typed generated program rejected / compiler failed (%s, features %s):\n%s" % (key[0], p.features, text[-1500:]),
                          files={"program.dora": p.source()})
        for key, exe in b.exes.items():
            for c in p.cases:
                jobs.append(((name, c.idx, key), exe, [c.idx] + list(c.inputs), None, None))
    by_prog = {n: p for n, p in progs}
    for (name, ci, key), o in progrun.run_cases(jobs):
        p = by_prog[name]
        c = p.cases[ci]
        exp_out, exp_kind, exp_err = c.expect
        ctx.count("runs")
        ctx.count("backend:" + key[0])
        ctx.count("expected:" + exp_kind.split("(")[0] + ("(%s)" % exp_kind.split("(")[1][:-1] if exp_kind.startswith("trap") else ""))
        if o.cls == "timeout":
            ctx.inconc("run watchdog: %s case %d %s" % (name, ci, key))
            continue
        ctx.observe((shape_hash(c), key[0]))
        got_out = o.stdout.decode("utf-8", "replace")
        got_kind = o.key()
        got_err = o.first_err() if not got_kind.startswith("ok") else ""
        problems = []
        if got_kind != exp_kind:
            problems.append("outcome %s, expected %s" % (got_kind, exp_kind))
        if got_out != exp_out:
            problems.append("stdout differs")
        if exp_kind != "ok(0)" and got_kind == exp_kind and got_err.strip() != exp_err.strip():
            problems.append("first stderr line %r, expected %r" % (got_err, exp_err))
        if problems:
            cls = "outcome" if got_kind != exp_kind else ("stdout" if got_out != exp_out else "stderr")
            what = ("%s case %d with %s code generator: %s\nexpected: %s %r\nobserved: %s %r\nstderr: %s\ninputs: %s  features: %s" % (
                name, ci, key[0], "; ".join(problems), exp_kind, exp_out[-600:], got_kind, got_out[-600:], o.stderr.decode("utf-8", "replace")[:600],
                c.inputs, p.features))
            ctx.violation("%s:%s:%s:exp=%s:got=%s" % (prop, cls, key[0], exp_kind, got_kind), what,
                          files={"program.dora": p.source(), "case.txt": "case %d inputs %s\n%s\n" % (ci, c.inputs, c.fn.src())},
                          cmd="%s %s" % (os.path.basename(built[name].exes[key]), " ".join(str(x) for x in [ci] + list(c.inputs))))
        elif ctx.counters.get("runs", 0) % 997 == 1:
            ctx.sample({"program": name, "case": ci, "inputs": c.inputs, "backend": key[0], "expected": [exp_kind, exp_out[:200]],
                        "source": c.fn.src()[:700]}, limit=5)
    return built


def run(ctx):
    build.ensure_toolchain("rel")
    nprog = ctx.pick(32, 480)
    ncases = 40
    ctx.rule = ("case = one generated closed program fragment (function case_k of a batch program, with its integer inputs from argv "
                "or literals) run on one code generator; distinct = distinct (IR shape with constants abstracted, code generator); "
                "non-trivial = the case executed and its outcome (stdout, exit/trap kind, trap message) was compared with the "
                "reference interpreter")
    ctx.assumptions = ["the reference interpreter is our transcription of the language rules listed in the property",
                       "out-of-range float->int conversions and cases exceeding the interpreter's step/depth budget are discarded at generation time"]
    progs = gen_programs(ctx, nprog, ncases)
    ctx.count("cases_generated", sum(len(p.cases) for _, p in progs))
    ctx.count("cases_discarded_undefined", sum(p.stats["discarded_undefined"] for _, p in progs))
    check_programs(ctx, progs, "c01")
    ctx.extra["feature_sets"] = [list(f) for f in FEATURE_SETS]
    ctx.min_distinct = 50
