"""C09 -- mutexes, conditions, joins and atomics keep their promises (DESIGN.md 5 C09).

Part 1 (primitive level, harness/vh-proto `waitq`): the lock-word protocol of pkgs/std/thread.dora transcribed as the
driver only, calling the REAL natives (mutex_wait / mutex_notify / condition_enqueue / condition_block_after_enqueue /
condition_wakeup_one / condition_wakeup_all, DoraThread::join) on fake managed objects, while a null collector relocates
those objects through the real root enumeration (handles + wait-table keys) in the middle of waits. Oracle: shadow owner
cell (overlapping critical sections), counter totals, barrier generations, bounded queue with unique items (no loss, no
duplicate, FIFO per producer), stale-object poison, H4 wait-list walker at every collection, all-blocked detector (lost
wake-up => logical deadlock verdict). Native only: Miri cannot execute the handle/Address integer-pointer round trips.
Part 2 (program level, vlib/props/c09_programs.py): generated multi-threaded Dora programs with fixed expected output.
"""
from .. import proto


def run(ctx):
    exe = proto.ensure_native()
    ctx.rule = ("primitive level: one execution = one waitq run (2-8 threads; counter phase, barrier phase, bounded-queue phase with "
                "collections relocating the mutex/condition objects) under a perturbation seed and affinity set; distinct = distinct "
                "vector of wait-list/park event counters; program level: see c09_programs")
    ctx.assumptions = ["interleavings are sampled (perturbation seeds, affinity sets, gc-stress), not enumerated"]
    aff = proto.affinity_sets()
    jobs = []
    nruns = ctx.pick(128, 1600)
    for i in range(nruns):
        r = ctx.rng("waitq", i)
        params = {"seed": ctx.seed * 100003 + i, "threads": r.choice([2, 3, 4, 6, 8]), "ops": r.choice([50, 200, 600]),
                  "rounds": r.choice([5, 50, 200]), "perturb": r.choice([0, 50, 200, 500])}
        jobs.append(("waitq", params, aff[i % len(aff)]))
    res = proto.run_native(exe, jobs, timeout=ctx.pick(180, 300))
    ok = proto.judge_native(ctx, "C09", res, ["counter", "consumed", "relocations", "collections"])
    ctx.count("waitq_runs_conclusive", ok)
    ctx.required_counters = ["WAITLIST_ENQUEUE", "WAITLIST_WAKEUP", "WAITLIST_WAKEUP_ALL", "WAITLIST_WAKEUP_EMPTY", "WAITLIST_CHECKS",
                             "relocations", "PARK_SLOW", "UNPARK_SLOW_WAITS", "JOIN_CALLS"]
    if not ctx.quick():
        tj = []
        for i in range(48):
            r = ctx.rng("tsan", i)
            tj.append(("waitq", {"seed": ctx.seed * 31337 + i, "threads": r.choice([2, 3, 4]), "ops": r.choice([50, 200]), "rounds": 20, "perturb": r.choice([0, 200])}))
        proto.run_tsan(ctx, "C09", tj)
    try:
        from . import c09_programs
    except ImportError:
        ctx.count("program_level_part_missing")
        return
    c09_programs.run(ctx)
